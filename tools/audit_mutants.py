#!/usr/bin/env python3
"""Developer audit (not a registered check): random small rewrites of the hand-written corpus files;
those that llvm-tblgen-14 still accepts must stay free of diagnostics under the server's analysis
(C13, soundness direction), those it rejects are listed when the server stays silent (completeness,
informational only: the server does not instantiate multiclasses or evaluate asserts).

  tools/audit_mutants.py <file relative to corpus/llvm14> <n> [seed]

llvm-tblgen is the auditor of the *rewrites* here, never the oracle of a check: every disagreement is
looked at by hand and, if it is a defect of the server, turned into a SEM feature first."""
import os, random, re, shutil, subprocess, sys

V = os.path.dirname(os.path.dirname(os.path.abspath(__file__)))
CORPUS = os.path.join(V, "corpus/llvm14")
VCHECK = os.path.join(V, "harness/target/release/vcheck")
TOK = re.compile(r'//[^\n]*|/\*.*?\*/|"(?:\\.|[^"\\])*"|\[\{.*?\}\]|![A-Za-z]+|\$[A-Za-z_0-9]+|[0-9]*[A-Za-z_][A-Za-z_0-9]*|[0-9]+|\.\.\.|\S', re.S)
KW = set("class def defm defset defvar multiclass let in foreach if then else include assert field bit bits int string list dag code true false".split())
BANG2 = ["!add", "!sub", "!mul", "!and", "!or", "!xor", "!shl", "!srl", "!sra", "!eq", "!ne", "!lt", "!le", "!gt", "!ge", "!strconcat", "!listconcat", "!con"]


def toks(text):
    out = []
    for m in TOK.finditer(text):
        out.append((m.start(), m.end(), m.group()))
    return out


def is_id(t):
    return re.fullmatch(r'[0-9]*[A-Za-z_][A-Za-z_0-9]*', t) and t not in KW


def mutate(text, rng):
    ts = toks(text)
    ids = [t for t in ts if is_id(t[2])]
    ints = [t for t in ts if re.fullmatch(r'[0-9]+', t[2])]
    bangs = [t for t in ts if t[2] in BANG2]
    strs = [t for t in ts if t[2].startswith('"')]
    k = rng.randrange(8)
    if k <= 2 and ids:
        a = rng.choice(ids)
        b = rng.choice(ids)
        return text[:a[0]] + b[2] + text[a[1]:], f"id {a[2]}@{a[0]} -> {b[2]}"
    if k == 3 and ints:
        a = rng.choice(ints)
        n = rng.choice(["0", "1", "2", "7", "31", "64", "255", "-1"])
        return text[:a[0]] + n + text[a[1]:], f"int {a[2]}@{a[0]} -> {n}"
    if k == 4 and bangs:
        a = rng.choice(bangs)
        b = rng.choice(BANG2)
        return text[:a[0]] + b + text[a[1]:], f"op {a[2]}@{a[0]} -> {b}"
    if k == 5 and strs and ids:
        a = rng.choice(strs + ints)
        b = rng.choice(ids + strs + ints)
        return text[:a[0]] + b[2] + text[a[1]:], f"lit {a[2]}@{a[0]} -> {b[2]}"
    if k == 6:
        # delete one statement-like line ending in ';'
        lines = text.split("\n")
        cand = [i for i, l in enumerate(lines) if l.rstrip().endswith(";") and "{" not in l and "}" not in l]
        if cand:
            i = rng.choice(cand)
            d = lines[i]
            del lines[i]
            return "\n".join(lines), f"delete line {i + 1}: {d.strip()[:60]}"
    if k == 7:
        # swap two adjacent template arguments / list elements around a comma
        commas = [t for t in ts if t[2] == ","]
        if commas:
            c = rng.choice(commas)
            i = ts.index(c)
            if 0 < i < len(ts) - 1 and (is_id(ts[i - 1][2]) or ts[i - 1][2][0].isdigit() or ts[i - 1][2][0] == '"') and (is_id(ts[i + 1][2]) or ts[i + 1][2][0].isdigit() or ts[i + 1][2][0] == '"'):
                a, b = ts[i - 1], ts[i + 1]
                return text[:a[0]] + b[2] + text[a[1]:b[0]] + a[2] + text[b[1]:], f"swap {a[2]} , {b[2]} @{a[0]}"
    a = rng.choice(ids)
    b = rng.choice(ids)
    return text[:a[0]] + b[2] + text[a[1]:], f"id {a[2]}@{a[0]} -> {b[2]}"


def main():
    rel, n = sys.argv[1], int(sys.argv[2])
    seed = int(sys.argv[3]) if len(sys.argv) > 3 else 1
    rng = random.Random(seed)
    base = open(os.path.join(CORPUS, rel)).read()
    work = f"/dev/shm/audit-mut-{os.getpid()}"
    shutil.rmtree(work, ignore_errors=True)
    os.makedirs(work + "/m")
    os.symlink(os.path.join(CORPUS, "llvm"), work + "/llvm")
    accepted, rejected = [], []
    for i in range(n):
        t, what = mutate(base, rng)
        if t == base:
            continue
        p = f"{work}/m/M{i}.td"
        open(p, "w").write(t)
        r = subprocess.run(["llvm-tblgen", "-I", work, p, "-o", "/dev/null"], capture_output=True, text=True)
        if r.returncode == 0:
            accepted.append((i, what))
        else:
            first = next((l for l in r.stderr.splitlines() if "error:" in l), "?")
            rejected.append((i, what, first.split("error:")[-1].strip()))
    roots = [f"m/M{i}.td" for i, _ in accepted] + [f"m/M{i}.td" for i, _, _ in rejected]
    counts = {}
    first_diag = {}
    for s in range(0, len(roots), 100):
        r = subprocess.run([VCHECK, "corpus-diag", work] + roots[s:s + 100], capture_output=True, text=True)
        for l in r.stdout.splitlines():
            m = re.match(r'(m/M\d+\.td): (\d+) diagnostics', l)
            if m:
                counts[m.group(1)] = int(m.group(2))
                continue
            m = re.match(r'(m/M\d+\.td): (.*)', l)
            if m and m.group(1) not in first_diag:
                first_diag[m.group(1)] = m.group(2)
    print(f"{rel}: {len(accepted)} rewrites accepted by llvm-tblgen, {len(rejected)} rejected")
    bad = 0
    for i, what in accepted:
        k = f"m/M{i}.td"
        if counts.get(k, 0) > 0:
            bad += 1
            print(f"  ACCEPTED-BUT-DIAGNOSED  [{what}]  {first_diag.get(k, '')[:200]}")
    silent = {}
    for i, what, err in rejected:
        k = f"m/M{i}.td"
        if counts.get(k, 0) == 0:
            silent.setdefault(re.sub(r"'[^']*'", "'_'", err)[:70], []).append(what)
    print(f"  accepted but diagnosed: {bad}")
    print(f"  rejected by llvm-tblgen, silent here: {sum(len(v) for v in silent.values())} of {len(rejected)}")
    for k, v in sorted(silent.items(), key=lambda kv: -len(kv[1])):
        print(f"    {len(v):4}  {k}   e.g. {v[0][:80]}")
    shutil.rmtree(work, ignore_errors=True)


main()
