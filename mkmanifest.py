#!/usr/bin/env python3
"""Regenerates MANIFEST.json from the table below (kept next to the checks so the two stay in sync)."""
import json, subprocess

HOOK_COMMITS = subprocess.run(["git", "-C", "/repo", "log", "--format=%H %s", "--grep=^verif hooks"],
                              capture_output=True, text=True).stdout.strip().splitlines()

CHECKS = {
 "C01": dict(cat="exploration", design="§5 C01",
   text="Round-trip + position oracle on ~1.9M generated texts per quick run: exhaustive token-class sequences up to length 3 over a 93-class alphabet that includes every error maker, BOM/NUL/NBSP/VT/NEL/ZWSP/CR and nested-comment lexemes, grammar-generated programs under three trivia policies, token mutations, every prefix of the seed files, windows of the 44 vendored files (39 LLVM-14 headers, five hand-written backend-style files), character noise, preprocessor regions with junk, 15 nesting shapes up to depth 250 , 10^4-fold token repetition, every lexeme that opens no bracket repeated 150000 times on a 512 KiB stack (stack use must not grow with the length of a text without nesting), and every sequence of up to three range pieces or separators in the five places where a range list is read. The property is universally quantified over all UTF-8 strings, so exploration with an exact oracle is the right level; no absence proof.",
   note="trusts rowan's text()/text_range(); explores short exhaustive + structured random inputs, not all strings",
   technique="property-based testing: round-trip oracle over exhaustive token-class sequences and grammar/mutation generators"),
 "C02": dict(cat="exploration", design="§5 C02",
   text="Totality oracle (no panic/abort via catch_unwind + supervisor, deterministic step budget from the verif hook, linear work bound 24*(max(raw lexical tokens, tree tokens, lines)+1)+256, well-formed error ranges/messages) over C01's space (which includes 15 nesting shapes up to depth 250, 10^4-fold token repetition and every non-nesting lexeme repeated 150000 times on a 512 KiB stack) plus unterminated constructs at every token boundary; family time-scaling: sixteen repeated units (statements with and without syntax errors, garbage, error-riddled values, lines that leave a code block, comment, string or conditional open), each parsed at n=600 and 16n repetitions - thread CPU time may grow at most 64-fold unless the long parse stays under two seconds (two rounds, best of three for the short text).",
   note="step counter hook counts lexer tokens and opened nodes; 256 MiB worker stacks (the server's 2 MiB stacks are not asserted); nesting > 256 skipped as documented non-goal",
   technique="property-based testing / fuzzing with a deterministic step-budget hook"),
 "C10": dict(cat="exploration", design="§5 C10",
   text="Differential against an independent reference position mapper (RefPos, from the LSP spec) on every string of length <=6 (thorough <=8) over a 9-symbol alphabet chosen to hit every encoding class and every line-break confusion (exhaustive), x every char-boundary offset and every (line, column) up to one past the extremes, plus an exhaustive family of code points at the edges of every UTF-8/UTF-16 length class and one per UTF-8 lead byte, long random texts over arbitrary scalar values, and real files in LF/CRLF form. Family long-lines: one line of 65 530..270 000 bytes with wide characters around 2^16 and far behind it, positions by definition at sampled offsets.",
   note="RefPos is the trusted reference; offsets strictly inside a CRLF pair are exempt from the round-trip clause, columns inside a surrogate pair and lines past the end are unspecified and skipped",
   technique="exhaustive small-scope enumeration + random texts against a reference model (differential)"),
 "C14": dict(cat="exploration", design="§5 C14",
   text="Differential against RefLexer (written from the TableGen Programmer's Reference) on 500k generated sequences per quick run of spec-level token instances sampled over each class's regular language with boundary cases, joined by every separator kind (including nested block comments with random bodies over the delimiter characters, and no separator where the reference split is unchanged; comments with runs of stars before the closer; trivia behind the last token, so that a comment or string may end with the input), the same differential on raw generated programs and the 48 real files, plus an exhaustive vocabulary table (every keyword, operator and punctuation mark lexes alone to a distinct non-Id kind).",
   note="RefLexer is the trusted reference for boundaries; kinds are checked by class membership, not by name",
   technique="property-based testing: generated token sequences, differential against a reference lexer"),
 "C15": dict(cat="exploration", design="§5 C15",
   text="Exhaustive enumeration of all directive/marker sequences up to length 6 (thorough 8) over two macro names, evaluated by a reference preprocessor (RefPP): for well-nested inputs the delivered non-trivia tokens must be exactly the selected markers with zero errors; unterminated conditionals and nameless directives must be reported. Random nestings to depth 6 with CRLF and trailing comments (after a blank and glued to the directive word or macro name); the same with lines of text that is not TableGen (unterminated strings, code fragments and comments, mid-line directives) placed in disabled regions; conditional regions embedded between the statements of generated programs (ide level: no declaration and no diagnostic from disabled text). Directive lines are written with tabs right behind the directive word and blanks or tabs at their end as well.",
   note="RefPP is the trusted reference; inputs with stray #else/#endif are not asserted",
   technique="exhaustive small-scope enumeration against a reference evaluator"),
 "C03": dict(cat="exploration", design="§5 C03",
   text="Totality oracle (catch_unwind, supervisor process for aborts/stack overflows, deterministic budgets for parser, include traversal and class-hierarchy walks) over ~20k generated multi-file workspaces per quick run - semantic stress patterns (incl. extreme integers wherever positions and widths are computed), shapes whose cost must stay polynomial (class lattices to depth 64, long chains, wide parent lists, multiclasses whose records double with every inner defm - self-instantiating, chained, ambiguous prefixes; an include graph of 40 stacked diamonds), name-colliding 'soup' programs, their typing prefixes and single-token edits, grammar programs, seed and real LLVM files - each swept with the full query set at every offset (small files) or every token boundary. Strings in the places where the analysis needs their text (def and defm names, pasted parts, named arguments, include paths) come from a pool with escapes at either end, empty, non-ASCII and path-like texts.",
   note="acyclic include graphs only (cycles: C16); 256 MiB stacks; in-memory FileSystem implementation of the harness",
   technique="property-based testing / fuzzing of the analysis API with crash isolation"),
 "C06": dict(cat="exploration", design="§5 C06",
   text="Oracle-free coherence invariant between goto_definition and references, checked at first/middle/last offset of every identifier token of every file of ~20k generated, mutated and real workspaces.",
   note="identifier tokens are located with the repository's own parser",
   technique="property-based testing: metamorphic/invariant oracle over generated workspaces"),
 "C17": dict(cat="exploration", design="§5 C17",
   text="Validity predicate on every range of every result of the full query sweep over C03's workspaces plus non-ASCII / CRLF / cut-inside-token variants (~60k workspaces per quick run).",
   note="workspace = key set of diagnostics(); text of a file = what the harness' FileSystem served",
   technique="property-based testing: validity predicate over all query results"),
 "C07": dict(cat="exploration", design="§5 C07",
   text="Differential oracle after every step of generated edit histories (1..12 operations over a 4-file workspace, 24 text variants per file covering every include subset, renames, moved includes, syntax/type errors, missing includes; server-style and API-style edits, root switches): the long-lived host's full query dump must equal a fresh host's. All ordered pairs of a first operation with a second are enumerated, longer histories are random; also histories over generated (SEM) programs with seven kinds of text variants, disk-only changes of included files, and didOpen/didChange/didClose histories through the real server (in a plain workspace directory, in one whose name the editor percent-escapes and in one behind a symbolic link; exhaustive families closed-documents: an unsaved edit, a close, and the document reached again through an include; unmodified-documents: a document opened with the very text of its file, which another program then rewrites) - with unopened files rewritten on disk, also to same-length texts under an unchanged modification time, and with a file that some variants include in vain appearing, disappearing, being opened unsaved and closed - compared with a fresh analysis of disk overlaid by the open buffers. Family reopened-documents: 2..4 edits, a close, a re-open and further edits with restarted version numbers, in the three kinds of workspace directory.",
   note="every edit is followed by set_root_file; hash-ordered result lists are compared sorted; FileIds are normalised to paths",
   technique="stateful property-based testing: history generation with a from-scratch differential oracle"),
 "C16": dict(cat="exploration", design="§5 C16",
   text="Exhaustive enumeration of every include graph (all edge sets incl. self-loops) over <=3 files (thorough: <=4 files, 65536 graphs, and 800k random graphs of 5-8 files, sparse to dense), ladders of 1..89 stacked diamonds (up to 268 files reached along 2^89 paths) within a traversal budget linear in files + include statements, x 10 variants (missing includes in every file, an include statement with an empty file name, INCLUDE_DIR-only target, directory-vs-INCLUDE_DIR choice, doubled include statements, includes nested in let/foreach/multiclass blocks and spread over both branches of an if, two directories with same-named files, files that declare nothing by name, include statements with a comment before the file name), checked against a reference reachability/resolution model: termination via traversal budget, exact workspace, exact document links, diagnostics only on unresolvable includes, single indexing, references across all includers. Variant 10: every other file is empty (zero bytes). The nested variant also puts the root's includes into a defset.",
   note="traversal-budget hook in collect_sources / Include::index; search order taken from the documentation",
   technique="exhaustive small-scope enumeration of configurations against a reference model"),
 "C20": dict(cat="exploration", design="§5 C20",
   text="Exhaustive over the finite completion vocabularies in the four contexts x the lexer's tables (acceptance decided by running the server's lexer/parser, candidates harvested from lexer.rs and the reference operator list; every accepted operator must be offered after '!' in four contexts, one with the '!' directly in front of an operator name); the same contexts behind generated trivia (non-ASCII comments, CRLF, block comments) must offer exactly what the bare context offers; class completion on generated multi-file workspaces (template parameters of seven types with type-correct defaults of several shapes, redeclarations) at every parent-class position with 0..3 typed characters, and at a parent-class position appended to generated (SEM) programs. String defaults carry escape sequences, also right in front of the closing quote.",
   note="eight vocabulary mismatches are pinned by a snapshot test and listed as known findings (exact spelling signatures)",
   technique="exhaustive enumeration of vocabularies + property-based testing of class completion"),
 "C05": dict(cat="exploration", design="§5 C05",
   text="Expected use->declaration map known by construction: a scope-tracking generator (SEM) emits well-scoped multi-file programs covering every declaration kind and the use positions the indexer visits, with shadowing (same-kind and cross-kind: a field or template argument named like an outer variable), optional syntax present/absent (braces of if/let bodies included), forward-declared classes, inherited fields declared again, and use-after-scope probes; goto_definition is checked at three offsets of every identifier, references as exact sets, probes must not resolve and must be diagnosed. 25000 programs per quick run.",
   note="the generator's scoping rules were audited against llvm-tblgen-14; uses of a field after a let override may resolve to the declaration or an override identifier; reference sets of overridden fields are not asserted",
   technique="property-based testing with a by-construction oracle (scope-tracking program generator)"),
 "C13": dict(cat="fault_enumeration", design="§5 C13",
   text="Soundness: 20000 well-formed SEM programs per quick run (incl. list pastes, !if over records, defm with class parents, records named after their defm and used as values, self-instantiating multiclasses, !if and lists over records of unrelated classes) must produce no diagnostic in any file, nor may the 18 vendored files that llvm-tblgen-14 accepts as roots (14 LLVM-14 headers such as Target.td and Intrinsics.td, five hand-written backend-style files; LF and CRLF). Completeness: fourteen fault classes (undefined class / multiclass / identifier / field read / field named by a let, missing include, dropped and surplus template argument, required positional arguments removed while named ones stay, type-incompatible value, operator arity +1/-1, deleted token in root / in an included file) are seeded one at a time at a generated eligible site (undefined identifiers: a name declared nowhere, or the name that stands there plus one character; the names of records that defms compose are sites as well) (typed sites: initialisers, template arguments, every operand of the integer operators and the elements of list literals); a diagnostic must intersect the site in the seeded file, and faults in the root must leave the included files clean.",
   note="well-formedness audited against llvm-tblgen-14 on its feature subset; token deletions restricted to ';', '=' (not before '{') and ':' whose absence is locally detectable; type faults use literals for which no TableGen conversion exists",
   technique="property-based testing + single-fault seeding over generated programs"),
 "C18": dict(cat="exploration", design="§5 C18",
   text="Outline and folding expectations known by construction from the SEM generator (statement extents, declaring identifiers, template arguments, declared/overridden fields, defset membership incl. nested defsets and blocks inside defsets, forward-declared classes as declarations of their own) compared exactly with document_symbol and folding_range for every file of 25000 programs per quick run; exhaustive family unresolved-parent (parent lists of <=3 entries over two classes and an undeclared name, x def/class x override present/absent: the outline keeps every resolvable parent's fields). Every third program ends with a switched-off preprocessor region full of declarations and blocks (a two-branch conditional nested in it), which must add nothing.",
   note="outline entries of defs inside multiclass bodies and of defs named by a paste expression are not asserted",
   technique="property-based testing with a by-construction oracle"),
 "C19": dict(cat="exploration", design="§5 C19",
   text="Hover (signature content, doc-comment extraction, use = declaration; on field overrides and uses of overridden fields the documentation of the declaration go-to-definition points at) at every identifier occurrence and inlay hints (exact set over the whole file; subset and in-range for every statement range, every class-name-only range and random ranges) against expectations recorded by the SEM generator; 25000 programs per quick run (a quarter in CRLF form). Declared widths include bits<1>, bits<2> and bits<16>.",
   note="label/signature formatting matched by containment; hints of multiclass references not asserted; fields overridden by let are exempt from the use=declaration clause",
   technique="property-based testing with a by-construction oracle"),
 "C08": dict(cat="exploration", design="§5 C08",
   text="The real Server runs in-process; a controlled scheduler built on schedule-point hooks (handlers, set_file_content, snapshot tasks, vfs reads) enumerates, per scenario (5 handlers - change root, change included, open included, re-send identical text, close root - x {no request, each of the 8 request kinds; thorough: every pair of request kinds}, with the previous notification's diagnostics task alive), every interleaving with at most 1 preemption (thorough: 3) by stateless DFS; blocked threads are recognised from /proc (sleeping, unchanged context-switch counters), a deadlock is reported when no actor can be released while some are blocked. Plus uncontrolled bursts (all 'change, request' pairs, request floods of 2..32 requests in flight when an edit arrives, workspace-switch sequences over documents that carry diagnostics, a third document and a root that drops its include, wide-workspace sequences - 40/300 includes, 200/3000 uses, the next edit sent the moment publishing starts - and random operation lists on documents of 1..300 classes) where a missing answer counts only with all-threads-blocked evidence. The client announces the capabilities a current editor announces (dynamic registration, workspace/*/refresh, work-done progress) and answers every server-to-client request at once, behind what it has already written. While a case runs the process's standard output is held, as the server binary holds it for its transport (a worker that prints blocks for ever), and the documents carry one statement of every kind the indexer walks; a standstill counts when every worker sleeps unscheduled and the main loop waits for input at every sample for more than three seconds.",
   note="liveness = completes under every enumerated schedule of these bounded scenarios at hook granularity; preemption-bounded, not all interleavings; OS pre-emption inside lock implementations is not controlled; timeouts without blocked-thread evidence are inconclusive",
   technique="schedule enumeration (stateless DFS, preemption-bounded) with a controlled scheduler + randomized stress"),
 "C09": dict(cat="exploration", design="§5 C09",
   text="2000 generated multi-file sessions per quick run against the real server with per-file line structure (pushed-down headers, LF/CRLF/mixed line endings, byte order marks, non-ASCII incl. the edges of the UTF-8 length classes): every range/location in definition, references, documentSymbol, foldingRange, documentLink, inlayHint answers and in published diagnostics is compared with the ide-level result converted by the independent reference position mapper against the text of the file it names; each session then sends a second revision of the root with the same bytes and moved line breaks and compares what the client holds again; then an unopened included file changes on disk, the root is sent again unchanged and definitions into that file are compared in the coordinates of the new disk text; then the first header is opened, edited and queried as an open included document (diagnostics, outline, definition, references, hints). Independently of the ide-level oracle every definition range must spell the identifier asked about.",
   note="isolates server.rs/to_proto.rs/from_proto.rs: a wrong range computed by the ide layer appears on both sides",
   technique="property-based testing: differential between the server's JSON and an ide-level oracle through a reference position mapper"),
 "C11": dict(cat="exploration", design="§5 C11",
   text="Histories of didOpen/didChange (all first-step x second-step pairs over 24 text variants, each variant in 3 line layouts of the same bytes, re-layout pairs, random histories up to 8 steps, back-to-back bursts, histories in which a file that was included in vain comes into being, histories in which files the editor never opens are written by another program, enter the workspace through an include and leave it at a root switch) observed through the publishDiagnostics stream in lock-step; after every step the last publication per URI must equal a fresh analysis of the current state (empty for files outside the workspace) and versions must not decrease.",
   note="buffer = disk in this check (C12 covers the difference); idle = all spawned tasks ended + barrier request",
   technique="stateful property-based testing against a from-scratch oracle"),
 "C12": dict(cat="exploration", design="§5 C12",
   text="Exhaustive enumeration of all sessions of up to 4 (thorough 5) open/change/close/save events and workspace-leaving events (an unrelated third document becomes root; the root drops its include), each with the included document on disk, never saved, and including the root back (include cycle through every edited document), and - up to 3 (thorough 4) events - in a workspace directory reached through a symbolic link, in a directory whose name the editor percent-escapes differently from the server's URL library (`+`, `[`, `]`, blank; diagnostics keyed by the decoded URI), with the included document in a directory of its own below INCLUDE_DIR (a library file that is opened and edited), and while another program rewrites both files on disk after every analysed step (buffer variant 0 then being the text on disk: a document opened unmodified), over a root and an included document whose disk and buffer texts differ observably, compared after every step with a reference session model (disk overlaid by open buffers, root = last touched). Family emptied-buffers: every sequence over open/change/close events in which the editor's text of a document is the empty string while its file is not.",
   note="a close triggers no analysis; its effect (disk text is the truth again) is checked at the next analysed step",
   technique="exhaustive small-scope enumeration of sessions against a reference model"),
 "C04": dict(cat="exploration", design="§5 C04",
   text="Positive: 10000 grammar-generated sentences per quick run (three trivia policies; object names with operators, lists, class values and suffixes) must parse with zero errors and mirror their derivation tree, including what each of the 103 typed accessors of ast.rs returns; the 44 vendored files (39 LLVM-14 headers, five hand-written backend-style files accepted by llvm-tblgen-14) and the seed files must parse cleanly. Negative: 15000 one/two-token edits classified by an independent Earley recogniser over token classes against two grammars (G_min: documented grammar; G_max: plus everything plausibly legal): derivable => zero errors, not derivable even from G_max => at least one error.",
   note="the Earley grammars are my transcription of syntax.md and the rule comments (self-checked: every generated sentence is in G_max); 'in between' inputs are not asserted",
   technique="grammar-based generation + mutation with an independent Earley recogniser as oracle"),
}

REASON_WIP = "check not built yet in this session (work in progress; see DESIGN.md for the planned generator and oracle)"
ALL = ["C%02d" % i for i in range(1, 21)]

manifest = {
  "version": 1,
  "setup_cmd": "./setup.sh",
  "hooks": {
    "guard": "cargo feature `verif` (crates syntax, ide, lsp)",
    "enable": "the harness crate /verif/harness depends on /repo/crates/* by path with features=[\"verif\"]; every ./check rebuilds it from /repo's working tree",
    "baseline_off_cmd": "cd /repo && cargo test --workspace --no-fail-fast --offline",
    "source_commits": [l.split()[0] for l in HOOK_COMMITS],
    "add_only": True,
  },
  "engines": [
    {"name": "vcheck", "path": "harness/", "serves_properties": sorted(CHECKS),
     "kind_free_text": "Rust harness: deterministic chunked generators (exhaustive enumerators + seeded PRNG), executable oracles and reference models, generic JSON-case shrinker, supervisor/child processes for crash isolation, replay files"},
  ],
  "checks": [],
  "not_applicable": [],
  "notes": "Exit codes: 0 held, 1 VIOLATION line printed, 2 inconclusive (watchdog, build failure, too few non-trivial cases). Known findings: /verif/known_findings.json.",
}
for pid in ALL:
    if pid in CHECKS:
        c = CHECKS[pid]
        manifest["checks"].append({
            "property_id": pid,
            "quick_cmd": f"./check {pid} quick",
            "thorough_cmd": f"./check {pid} thorough",
            "evidence_file": f"evidence/{pid}.json",
            "replay_cmd_template": f"./check {pid} replay {{path}}",
            "engine": "vcheck",
            "level_claimed": {"category": c["cat"], "text": c["text"], "design_ref": c["design"]},
            "level_note": c["note"],
            "technique": c["technique"],
        })
    else:
        manifest["not_applicable"].append({"property_id": pid, "reason": REASON_WIP})
json.dump(manifest, open("/verif/MANIFEST.json", "w"), indent=1)
print("claimed:", sorted(CHECKS))
