#![no_main]
//! C01 + C02 oracles inside the target: lossless round trip, totality, work bound, error ranges.
use libfuzzer_sys::fuzz_target;
use vcheck::props::{c01, c02, textspace};

fuzz_target!(|data: &[u8]| {
    let Ok(text) = std::str::from_utf8(data) else { return };
    if textspace::scan_depth(text) > 256 {
        return;
    }
    if let Err(f) = c01::check_lossless(text) {
        panic!("VFUZZ C01 {} {}", f.sig, f.detail);
    }
    if let Err(f) = c02::check_total(text) {
        panic!("VFUZZ C02 {} {}", f.sig, f.detail);
    }
});
