#![no_main]
//! C03 + C06 + C17 oracles inside the target: bytes -> a small workspace (root + up to two
//! included files, split at form feeds), full query sweep.
use libfuzzer_sys::fuzz_target;
use vcheck::fw::{Ctx, Known, Property, Tier, Verdict};
use vcheck::props::{c03::C03, c06::C06, c17::C17};

fuzz_target!(|data: &[u8]| {
    let Ok(text) = std::str::from_utf8(data) else { return };
    let mut parts = text.splitn(3, '\u{c}');
    let root_body = parts.next().unwrap_or("");
    let mut files = serde_json::Map::new();
    let mut root = String::new();
    for (i, p) in parts.enumerate() {
        root.push_str(&format!("include \"inc{i}.td\"\n"));
        files.insert(format!("inc{i}.td"), serde_json::json!(p));
    }
    root.push_str(root_body);
    files.insert("root.td".into(), serde_json::json!(root));
    let case = serde_json::json!({"kind": "ws", "root": "root.td", "files": files});
    let ctx = Ctx { tier: Tier::Thorough, seed: 0, known: Known::default() };
    vcheck::ws::init_env();
    for p in [&C03 as &dyn Property, &C06, &C17] {
        if let Verdict::Fail(f) = p.run_case(&ctx, &case) {
            panic!("VFUZZ {} {} {}", p.id(), f.sig, f.detail);
        }
    }
});
