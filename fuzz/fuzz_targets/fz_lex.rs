#![no_main]
//! C14 differential inside the target: where the reference lexer accepts the whole text, the
//! implementation must produce the same token boundaries, compatible kinds and no error.
use libfuzzer_sys::fuzz_target;
use vcheck::props::c14;

fuzz_target!(|data: &[u8]| {
    let Ok(text) = std::str::from_utf8(data) else { return };
    if let Err(f) = c14::differential_raw(text) {
        panic!("VFUZZ C14 {} {}", f.sig, f.detail);
    }
});
