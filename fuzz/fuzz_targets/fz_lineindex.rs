#![no_main]
//! C10 differential inside the target.
use libfuzzer_sys::fuzz_target;
use vcheck::props::c10;

fuzz_target!(|data: &[u8]| {
    let Ok(text) = std::str::from_utf8(data) else { return };
    if text.len() > 2000 {
        return;
    }
    if let Err(f) = c10::check_text(text) {
        panic!("VFUZZ C10 {} {}", f.sig, f.detail);
    }
});
