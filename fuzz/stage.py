#!/usr/bin/env python3
"""Coverage-guided stage of the thorough tier: runs the libFuzzer target that carries the
property's oracle, re-checks every crash input through the deterministic harness path and
reports it as a violation only if that path fails too. Patches fuzz statistics into the
evidence file written by the harness run before it.
usage: fuzz/stage.py <ID>      (cwd = /verif; env VERIF_SEED)
exit 0 = nothing found, 1 = VIOLATION printed, 2 = inconclusive"""
import glob, hashlib, json, os, re, shutil, subprocess, sys

TARGETS = {"C01": "fz_parse", "C02": "fz_parse", "C14": "fz_lex", "C10": "fz_lineindex",
           "C03": "fz_analysis", "C06": "fz_analysis", "C17": "fz_analysis"}
RUNS = {"fz_parse": 40000, "fz_lex": 400000, "fz_lineindex": 30000, "fz_analysis": 2500}   # per job
JOBS = 8

def case_of(target, data):
    try:
        text = data.decode("utf-8")
    except UnicodeDecodeError:
        return None
    if target == "fz_parse":
        return {"kind": "text", "text": text}
    if target == "fz_lineindex":
        return {"kind": "pos", "text": text}
    if target == "fz_lex":
        return {"kind": "lex-raw", "text": text}
    parts = text.split("\x0c", 2)
    files = {}
    root = ""
    for i, p in enumerate(parts[1:]):
        root += f'include "inc{i}.td"\n'
        files[f"inc{i}.td"] = p
    files["root.td"] = root + parts[0]
    return {"kind": "ws", "root": "root.td", "files": files}

def main():
    pid = sys.argv[1]
    target = TARGETS.get(pid)
    if target is None:
        return 0
    seed = int(os.environ.get("VERIF_SEED", "20260926")) & 0x7fffffff or 1
    env = dict(os.environ, CARGO_NET_OFFLINE="true")
    b = subprocess.run(["cargo", "+nightly", "fuzz", "build", "--fuzz-dir", "fuzz", target], env=env,
                       capture_output=True, text=True)
    if b.returncode != 0:
        print(f"INCONCLUSIVE property={pid} fuzz target {target} does not build: {b.stderr.strip().splitlines()[-1:]}" )
        return 2
    work = f"fuzz/corpus-work/{target}-{os.getpid()}"
    art = f"fuzz/artifacts/{target}-{os.getpid()}/"
    shutil.rmtree(work, ignore_errors=True); os.makedirs(work); os.makedirs(art, exist_ok=True)
    seeds = f"{work}-seeds"; shutil.rmtree(seeds, ignore_errors=True); os.makedirs(seeds)
    for f in glob.glob("corpus/seeds/*.td"):
        shutil.copy(f, seeds)
    for f in sorted(glob.glob("corpus/llvm14/**/*.td", recursive=True)):
        if os.path.getsize(f) < 6000:
            shutil.copy(f, os.path.join(seeds, "llvm-" + os.path.basename(f)))
    cmd = ["cargo", "+nightly", "fuzz", "run", "--fuzz-dir", "fuzz", target, work, seeds, "--",
           f"-runs={RUNS[target]}", f"-seed={seed}", "-len_control=0", "-max_len=4096", "-timeout=60",
           "-rss_limit_mb=6000", f"-artifact_prefix={art}", f"-jobs={JOBS}", f"-workers={JOBS}", "-print_final_stats=1"]
    r = subprocess.run(cmd, env=env, capture_output=True, text=True, timeout=6 * 3600)
    logs = r.stdout + r.stderr
    for f in glob.glob("fuzz-*.log"):
        logs += open(f, errors="replace").read(); os.remove(f)
    execs = sum(int(x) for x in re.findall(r"stat::number_of_executed_units:\s*(\d+)", logs))
    corpus = len(os.listdir(work))
    crashes = sorted(glob.glob(art + "crash-*") + glob.glob(art + "timeout-*") + glob.glob(art + "oom-*"))
    rc = 0
    confirmed = 0
    for c in crashes:
        data = open(c, "rb").read()
        case = case_of(target, data)
        if case is None:
            continue
        tmp = f"{work}-case.json"
        json.dump({"case": case}, open(tmp, "w"))
        ev = subprocess.run(["harness/target/release/vcheck", "eval", pid, "thorough", tmp], capture_output=True, text=True)
        if ev.returncode == 3 or ev.returncode < 0:
            os.makedirs(f"replays/{pid}", exist_ok=True)
            out = f"replays/{pid}/fuzz-{hashlib.sha1(data).hexdigest()[:16]}.json"
            json.dump({"property": pid, "origin": f"libFuzzer target {target}", "case": case,
                       "failure": json.loads(ev.stdout.strip().splitlines()[-1]) if ev.stdout.strip() else {"oracle": "abort"}}, open(out, "w"), indent=1)
            print(f"VIOLATION property={pid} replay={os.path.abspath(out)}")
            print("  found by coverage-guided fuzzing (" + target + "), confirmed by the deterministic replay path")
            rc = 1; confirmed += 1
        elif c.split('/')[-1].startswith("crash-"):
            print(f"NOTE: fuzz crash {c} is not reproduced by the deterministic path of {pid} (other property of the same target, or known finding)")
    # evidence
    ef = f"evidence/{pid}.json"
    try:
        e = json.load(open(ef))
        e["coverage"]["fuzz"] = {"target": target, "engine": "libFuzzer (cargo-fuzz)", "jobs": JOBS, "runs_per_job": RUNS[target],
                                 "executions": execs, "final_corpus_files": corpus, "crash_inputs": len(crashes), "confirmed_violations": confirmed,
                                 "seed": seed, "seed_corpus": "corpus/seeds + small vendored LLVM files", "note": "oracle inside the target; -seed pins a campaign only approximately"}
        e["coverage"]["evaluations"] += execs
        if confirmed:
            e["violations"] = e.get("violations", 0) + confirmed
        json.dump(e, open(ef, "w"), indent=1)
    except Exception as ex:
        print("NOTE: could not patch evidence:", ex)
    print(f"FUZZ property={pid} target={target} executions={execs} corpus={corpus} crashes={len(crashes)} confirmed={confirmed}")
    shutil.rmtree(work, ignore_errors=True); shutil.rmtree(seeds, ignore_errors=True)
    if not crashes:
        shutil.rmtree(art, ignore_errors=True)
    return rc

if __name__ == "__main__":
    sys.exit(main())
