#!/opt/veriftools/pyvenv/bin/python3
import json, jsonschema, glob, sys
ok = True
try:
    jsonschema.validate(json.load(open('/verif/MANIFEST.json')), json.load(open('/root/.vp/MANIFEST.schema.json')))
except Exception as e:
    ok = False; print("MANIFEST:", e)
es = json.load(open('/root/.vp/EVIDENCE.schema.json'))
for f in sorted(glob.glob('/verif/evidence/*.json')):
    try:
        jsonschema.validate(json.load(open(f)), es)
    except Exception as e:
        ok = False; print(f, str(e)[:300])
print("valid" if ok else "INVALID"); sys.exit(0 if ok else 1)
