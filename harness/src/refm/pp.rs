//! RefPP — reference evaluation of #define / #ifdef / #ifndef / #else / #endif over a sequence
//! of line items (TableGen Programmer's Reference, "Preprocessing Facilities").
#[derive(Clone, Debug, PartialEq, Eq)]
pub enum Item {
    Define(String),
    Ifdef(String),
    Ifndef(String),
    Else,
    Endif,
    /// the i-th marker
    Marker(usize),
}

#[derive(Debug, PartialEq, Eq)]
pub enum Shape {
    /// every conditional is closed, no stray #else/#endif, at most one #else each
    WellNested,
    /// well nested so far, but conditionals remain open at the end
    Unterminated,
    /// stray #else / #endif / second #else
    Stray,
}

pub struct Eval {
    pub shape: Shape,
    /// markers in enabled regions, in order
    pub selected: Vec<usize>,
    pub max_depth: usize,
    pub else_in_disabled: bool,
}

pub fn eval(items: &[Item]) -> Eval {
    struct Frame {
        parent_enabled: bool,
        cond: bool,
        in_else: bool,
    }
    let mut defined: Vec<String> = Vec::new();
    let mut stack: Vec<Frame> = Vec::new();
    let mut selected = Vec::new();
    let mut stray = false;
    let mut max_depth = 0;
    let mut else_in_disabled = false;
    let enabled = |st: &Vec<Frame>| st.last().map(|f| f.parent_enabled && (f.cond != f.in_else)).unwrap_or(true);
    for it in items {
        let en = enabled(&stack);
        match it {
            Item::Define(m) => {
                if en && !defined.contains(m) {
                    defined.push(m.clone());
                }
            }
            Item::Ifdef(m) | Item::Ifndef(m) => {
                let d = defined.contains(m);
                let cond = if matches!(it, Item::Ifdef(_)) { d } else { !d };
                stack.push(Frame { parent_enabled: en, cond, in_else: false });
                max_depth = max_depth.max(stack.len());
            }
            Item::Else => match stack.last_mut() {
                Some(f) if !f.in_else => {
                    if !f.parent_enabled {
                        else_in_disabled = true;
                    }
                    f.in_else = true;
                }
                _ => stray = true,
            },
            Item::Endif => {
                if stack.pop().is_none() {
                    stray = true;
                }
            }
            Item::Marker(i) => {
                if en {
                    selected.push(*i);
                }
            }
        }
        if stray {
            break;
        }
    }
    let shape = if stray {
        Shape::Stray
    } else if !stack.is_empty() {
        Shape::Unterminated
    } else {
        Shape::WellNested
    };
    Eval { shape, selected, max_depth, else_in_disabled }
}
