pub mod lexer;
pub mod pos;
pub mod pp;
pub mod earley;
