//! RefLexer — reference tokenizer written from the LLVM TableGen Programmer's Reference
//! (section "Lexical Analysis"): identifiers may start with digits, decimal integers carry an
//! optional sign, `0x…`/`0b…` integers, strings with the escapes \\ \' \" \t \n, `[{ … }]`
//! code, `$name`, `//` comments, *nested* `/* */` comments, punctuation, keywords, and the
//! bang-operator list.
use crate::gen::tok::{KEYWORDS, REF_BANG_OPERATORS};

#[derive(Clone, Debug, PartialEq, Eq)]
pub enum RefKind {
    Id,
    Int,    // decimal or hex
    BinInt, // 0b…
    Str,
    Code,
    Var,
    Keyword(&'static str),
    Bang(&'static str),
    Punct(&'static str),
    Directive(&'static str),
    /// not a token of the language
    Invalid(&'static str),
}

#[derive(Clone, Debug, PartialEq, Eq)]
pub struct RefToken {
    pub kind: RefKind,
    pub start: usize,
    pub end: usize,
}

fn is_id_char(c: u8) -> bool {
    c.is_ascii_alphanumeric() || c == b'_'
}

pub fn classify_word(w: &str) -> RefKind {
    let b = w.as_bytes();
    if b.iter().all(|c| c.is_ascii_digit()) {
        return RefKind::Int;
    }
    if let Some(r) = w.strip_prefix("0x") {
        if !r.is_empty() && r.bytes().all(|c| c.is_ascii_hexdigit()) {
            return RefKind::Int;
        }
    }
    if let Some(r) = w.strip_prefix("0b") {
        if !r.is_empty() && r.bytes().all(|c| c == b'0' || c == b'1') {
            return RefKind::BinInt;
        }
    }
    if let Some(k) = KEYWORDS.iter().find(|k| **k == w) {
        return RefKind::Keyword(k);
    }
    RefKind::Id
}

/// Tokenizes `text`; trivia (whitespace, comments) is skipped. Stops with an `Invalid` token
/// at the first lexical error.
pub fn ref_lex(text: &str) -> Vec<RefToken> {
    let b = text.as_bytes();
    let mut out = Vec::new();
    let mut i = 0usize;
    let n = b.len();
    while i < n {
        let c = b[i];
        let start = i;
        // whitespace
        if c == b' ' || c == b'\t' || c == b'\n' || c == b'\r' {
            i += 1;
            continue;
        }
        // comments
        if c == b'/' && i + 1 < n && b[i + 1] == b'/' {
            while i < n && b[i] != b'\n' && b[i] != b'\r' {
                i += 1;
            }
            continue;
        }
        if c == b'/' && i + 1 < n && b[i + 1] == b'*' {
            let mut depth = 1;
            i += 2;
            while i < n && depth > 0 {
                if b[i] == b'/' && i + 1 < n && b[i + 1] == b'*' {
                    depth += 1;
                    i += 2;
                } else if b[i] == b'*' && i + 1 < n && b[i + 1] == b'/' {
                    depth -= 1;
                    i += 2;
                } else {
                    i += 1;
                }
            }
            if depth > 0 {
                out.push(RefToken { kind: RefKind::Invalid("unterminated comment"), start, end: n });
                return out;
            }
            continue;
        }
        let tok = |kind: RefKind, end: usize| RefToken { kind, start, end };
        // words: identifiers, keywords, numbers (sign handled below)
        if is_id_char(c) {
            while i < n && is_id_char(b[i]) {
                i += 1;
            }
            out.push(tok(classify_word(&text[start..i]), i));
            continue;
        }
        if (c == b'-' || c == b'+') && i + 1 < n && b[i + 1].is_ascii_digit() {
            i += 1;
            while i < n && b[i].is_ascii_digit() {
                i += 1;
            }
            out.push(tok(RefKind::Int, i));
            continue;
        }
        match c {
            b'"' => {
                i += 1;
                loop {
                    if i >= n || b[i] == b'\n' || b[i] == b'\r' {
                        out.push(tok(RefKind::Invalid("unterminated string"), i));
                        return out;
                    }
                    if b[i] == b'\\' {
                        // the five escapes of the reference; anything else is not a valid literal
                        if i + 1 < n && matches!(b[i + 1], b'\\' | b'\'' | b'"' | b't' | b'n') {
                            i += 2;
                            continue;
                        }
                        out.push(tok(RefKind::Invalid("invalid escape"), i + 1));
                        return out;
                    }
                    if b[i] == b'"' {
                        i += 1;
                        break;
                    }
                    i += 1;
                }
                out.push(tok(RefKind::Str, i.min(n)));
            }
            b'[' if i + 1 < n && b[i + 1] == b'{' => match text[i + 2..].find("}]") {
                Some(p) => {
                    i = i + 2 + p + 2;
                    out.push(tok(RefKind::Code, i));
                }
                None => {
                    out.push(tok(RefKind::Invalid("unterminated code"), n));
                    return out;
                }
            },
            b'$' => {
                i += 1;
                if i < n && (b[i].is_ascii_alphabetic() || b[i] == b'_') {
                    while i < n && is_id_char(b[i]) {
                        i += 1;
                    }
                    out.push(tok(RefKind::Var, i));
                } else {
                    out.push(tok(RefKind::Invalid("bad variable name"), i));
                    return out;
                }
            }
            b'!' => {
                i += 1;
                while i < n && b[i].is_ascii_alphabetic() {
                    i += 1;
                }
                match REF_BANG_OPERATORS.iter().find(|o| **o == &text[start + 1..i]) {
                    Some(o) => out.push(tok(RefKind::Bang(o), i)),
                    None => {
                        out.push(tok(RefKind::Invalid("unknown bang operator"), i));
                        return out;
                    }
                }
            }
            b'#' => {
                // a directive word is a directive only when whitespace, the end of the input or a
                // comment follows (TGLexer::prepIsDirective); otherwise `#` is the paste operator
                // and the word starts the next token: `a#else2`, `a#define_x`
                let mut j = i + 1;
                while j < n && b[j].is_ascii_alphabetic() {
                    j += 1;
                }
                let word_ends = j >= n || matches!(b[j], b' ' | b'\t' | b'\n' | b'\r') || (b[j] == b'/' && j + 1 < n && matches!(b[j + 1], b'/' | b'*'));
                match if word_ends { &text[i + 1..j] } else { "" } {
                    "define" => {
                        i = j;
                        out.push(tok(RefKind::Directive("define"), i));
                    }
                    "ifdef" => {
                        i = j;
                        out.push(tok(RefKind::Directive("ifdef"), i));
                    }
                    "ifndef" => {
                        i = j;
                        out.push(tok(RefKind::Directive("ifndef"), i));
                    }
                    "else" => {
                        i = j;
                        out.push(tok(RefKind::Directive("else"), i));
                    }
                    "endif" => {
                        i = j;
                        out.push(tok(RefKind::Directive("endif"), i));
                    }
                    _ => {
                        i += 1;
                        out.push(tok(RefKind::Punct("#"), i));
                    }
                }
            }
            b'.' => {
                if text[i..].starts_with("...") {
                    i += 3;
                    out.push(tok(RefKind::Punct("..."), i));
                } else if text[i..].starts_with("..") {
                    out.push(tok(RefKind::Invalid("'..'"), i + 2));
                    return out;
                } else {
                    i += 1;
                    out.push(tok(RefKind::Punct("."), i));
                }
            }
            _ => {
                const P: [&str; 15] = ["-", "+", "[", "]", "{", "}", "(", ")", "<", ">", ":", ";", ",", "=", "?"];
                match P.iter().find(|p| p.as_bytes()[0] == c) {
                    Some(p) => {
                        i += 1;
                        out.push(tok(RefKind::Punct(p), i));
                    }
                    None => {
                        out.push(tok(RefKind::Invalid("unexpected character"), i + 1));
                        return out;
                    }
                }
            }
        }
    }
    out
}
