//! Earley recogniser over token classes, with a tiny EBNF front end.
//!
//! Grammar text: `Name = alternative | alternative ;` where an alternative is a sequence of
//! items; an item is a nonterminal `Name`, a terminal `'text'`, a group `( … )`, followed by
//! an optional `?`, `*` or `+`.
use std::collections::{HashMap, HashSet};

#[derive(Clone, Debug, PartialEq, Eq, Hash)]
enum Sym {
    T(u32),
    N(u32),
}

pub struct Grammar {
    rules: Vec<(u32, Vec<Sym>)>,
    by_lhs: HashMap<u32, Vec<usize>>,
    nullable: HashSet<u32>,
    terms: HashMap<String, u32>,
    start: u32,
}

struct Builder {
    nts: HashMap<String, u32>,
    terms: HashMap<String, u32>,
    rules: Vec<(u32, Vec<Sym>)>,
    fresh: u32,
}

impl Builder {
    fn nt(&mut self, name: &str) -> u32 {
        let n = self.nts.len() as u32;
        *self.nts.entry(name.to_string()).or_insert(n)
    }
    fn term(&mut self, t: &str) -> u32 {
        let n = self.terms.len() as u32;
        *self.terms.entry(t.to_string()).or_insert(n)
    }
    fn fresh_nt(&mut self) -> u32 {
        self.fresh += 1;
        let name = format!("__g{}", self.fresh);
        self.nt(&name)
    }
}

fn tokenize(src: &str) -> Vec<String> {
    let mut out = Vec::new();
    let b: Vec<char> = src.chars().collect();
    let mut i = 0;
    while i < b.len() {
        let c = b[i];
        if c.is_whitespace() {
            i += 1;
        } else if c == '\'' {
            let mut j = i + 1;
            while j < b.len() && b[j] != '\'' {
                j += 1;
            }
            out.push(b[i..=j.min(b.len() - 1)].iter().collect());
            i = j + 1;
        } else if c.is_alphanumeric() || c == '_' {
            let mut j = i;
            while j < b.len() && (b[j].is_alphanumeric() || b[j] == '_') {
                j += 1;
            }
            out.push(b[i..j].iter().collect());
            i = j;
        } else {
            out.push(c.to_string());
            i += 1;
        }
    }
    out
}

/// parses alternatives until `)` or `;`, returns list of alternatives (each a Vec<Sym>)
fn parse_alts(b: &mut Builder, toks: &[String], pos: &mut usize) -> Vec<Vec<Sym>> {
    let mut alts = vec![Vec::new()];
    while *pos < toks.len() {
        let t = toks[*pos].as_str();
        match t {
            ")" | ";" => break,
            "|" => {
                alts.push(Vec::new());
                *pos += 1;
                continue;
            }
            _ => {}
        }
        let mut sym = if t == "(" {
            *pos += 1;
            let inner = parse_alts(b, toks, pos);
            assert_eq!(toks[*pos], ")", "grammar: expected )");
            *pos += 1;
            let g = b.fresh_nt();
            for a in inner {
                b.rules.push((g, a));
            }
            Sym::N(g)
        } else if let Some(q) = t.strip_prefix('\'') {
            *pos += 1;
            Sym::T(b.term(q.trim_end_matches('\'')))
        } else {
            *pos += 1;
            Sym::N(b.nt(t))
        };
        // postfix operators
        while *pos < toks.len() && matches!(toks[*pos].as_str(), "?" | "*" | "+") {
            let op = toks[*pos].clone();
            *pos += 1;
            let g = b.fresh_nt();
            match op.as_str() {
                "?" => {
                    b.rules.push((g, vec![]));
                    b.rules.push((g, vec![sym.clone()]));
                }
                "*" => {
                    b.rules.push((g, vec![]));
                    b.rules.push((g, vec![Sym::N(g), sym.clone()]));
                }
                _ => {
                    b.rules.push((g, vec![sym.clone()]));
                    b.rules.push((g, vec![Sym::N(g), sym.clone()]));
                }
            }
            sym = Sym::N(g);
        }
        alts.last_mut().unwrap().push(sym);
    }
    alts
}

impl Grammar {
    pub fn parse(src: &str, start: &str) -> Grammar {
        // '?' as a terminal is written '?' in quotes, so bare ? is always the operator
        let toks = tokenize(src);
        let mut b = Builder { nts: HashMap::new(), terms: HashMap::new(), rules: Vec::new(), fresh: 0 };
        let mut pos = 0;
        while pos < toks.len() {
            let lhs = b.nt(&toks[pos]);
            assert_eq!(toks[pos + 1], "=", "grammar: expected = after {}", toks[pos]);
            pos += 2;
            for a in parse_alts(&mut b, &toks, &mut pos) {
                b.rules.push((lhs, a));
            }
            assert_eq!(toks[pos], ";", "grammar: expected ;");
            pos += 1;
        }
        let mut by_lhs: HashMap<u32, Vec<usize>> = HashMap::new();
        for (i, (l, _)) in b.rules.iter().enumerate() {
            by_lhs.entry(*l).or_default().push(i);
        }
        for (name, id) in &b.nts {
            assert!(by_lhs.contains_key(id), "grammar: nonterminal {name} has no rule");
        }
        let mut nullable: HashSet<u32> = HashSet::new();
        loop {
            let mut changed = false;
            for (l, rhs) in &b.rules {
                if !nullable.contains(l) && rhs.iter().all(|s| matches!(s, Sym::N(n) if nullable.contains(n))) {
                    nullable.insert(*l);
                    changed = true;
                }
            }
            if !changed {
                break;
            }
        }
        let start = b.nts[start];
        Grammar { rules: b.rules, by_lhs, nullable, terms: b.terms, start }
    }

    /// Does the grammar derive the sequence of terminal names?
    pub fn accepts(&self, input: &[&str]) -> bool {
        let toks: Vec<Option<u32>> = input.iter().map(|t| self.terms.get(*t).copied()).collect();
        let n = toks.len();
        // item = (rule, dot, origin)
        let mut sets: Vec<Vec<(usize, usize, usize)>> = vec![Vec::new(); n + 1];
        let mut seen: Vec<HashSet<(usize, usize, usize)>> = vec![HashSet::new(); n + 1];
        for &r in &self.by_lhs[&self.start] {
            if seen[0].insert((r, 0, 0)) {
                sets[0].push((r, 0, 0));
            }
        }
        for i in 0..=n {
            let mut k = 0;
            while k < sets[i].len() {
                let (r, dot, origin) = sets[i][k];
                k += 1;
                let rhs = &self.rules[r].1;
                if dot < rhs.len() {
                    match &rhs[dot] {
                        Sym::N(b) => {
                            if let Some(rs) = self.by_lhs.get(b) {
                                for &r2 in rs {
                                    if seen[i].insert((r2, 0, i)) {
                                        sets[i].push((r2, 0, i));
                                    }
                                }
                            }
                            if self.nullable.contains(b) && seen[i].insert((r, dot + 1, origin)) {
                                sets[i].push((r, dot + 1, origin));
                            }
                        }
                        Sym::T(t) => {
                            if i < n && toks[i] == Some(*t) && seen[i + 1].insert((r, dot + 1, origin)) {
                                sets[i + 1].push((r, dot + 1, origin));
                            }
                        }
                    }
                } else {
                    // completion
                    let lhs = self.rules[r].0;
                    let mut j = 0;
                    while j < sets[origin].len() {
                        let (r2, d2, o2) = sets[origin][j];
                        j += 1;
                        let rhs2 = &self.rules[r2].1;
                        if d2 < rhs2.len() && rhs2[d2] == Sym::N(lhs) && seen[i].insert((r2, d2 + 1, o2)) {
                            sets[i].push((r2, d2 + 1, o2));
                        }
                    }
                }
            }
            if i < n && sets[i + 1].is_empty() {
                return false;
            }
        }
        sets[n].iter().any(|&(r, dot, origin)| origin == 0 && dot == self.rules[r].1.len() && self.rules[r].0 == self.start)
    }
}

#[cfg(test)]
mod tests {
    use super::*;
    #[test]
    fn small() {
        let g = Grammar::parse("S = 'a' B* ('c' | 'd')? ; B = 'b' ;", "S");
        assert!(g.accepts(&["a"]));
        assert!(g.accepts(&["a", "b", "b", "c"]));
        assert!(!g.accepts(&["a", "c", "b"]));
        assert!(!g.accepts(&[]));
    }
}
