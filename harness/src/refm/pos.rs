//! RefPos — reference LSP position mapper, written from the LSP specification:
//! line terminators are exactly "\n", "\r\n" and "\r"; columns are UTF-16 code units;
//! a column past the end of a line denotes the end of the line (before its terminator).
pub struct RefPos<'a> {
    pub text: &'a str,
    /// byte offset of the first byte of each line
    pub starts: Vec<usize>,
    /// byte offset of the end of each line's content (before its terminator)
    pub ends: Vec<usize>,
}

impl<'a> RefPos<'a> {
    pub fn new(text: &'a str) -> Self {
        let b = text.as_bytes();
        let mut starts = vec![0usize];
        let mut ends = Vec::new();
        let mut i = 0;
        while i < b.len() {
            match b[i] {
                b'\n' => {
                    ends.push(i);
                    i += 1;
                    starts.push(i);
                }
                b'\r' => {
                    ends.push(i);
                    i += if b.get(i + 1) == Some(&b'\n') { 2 } else { 1 };
                    starts.push(i);
                }
                _ => i += 1,
            }
        }
        ends.push(b.len());
        RefPos { text, starts, ends }
    }

    pub fn lines(&self) -> usize {
        self.starts.len()
    }

    pub fn line_of(&self, offset: usize) -> usize {
        match self.starts.binary_search(&offset) {
            Ok(i) => i,
            Err(i) => i - 1,
        }
    }

    /// true when the offset lies strictly inside a CRLF pair
    pub fn inside_crlf(&self, offset: usize) -> bool {
        let b = self.text.as_bytes();
        offset > 0 && offset < b.len() && b[offset - 1] == b'\r' && b[offset] == b'\n'
    }

    pub fn width16(&self, line: usize) -> usize {
        self.text[self.starts[line]..self.ends[line]].encode_utf16().count()
    }

    pub fn is_boundary(&self, offset: usize) -> bool {
        offset <= self.text.len() && self.text.is_char_boundary(offset)
    }

    /// offset (a char boundary inside the text) -> (line, UTF-16 column)
    pub fn to_pos(&self, offset: usize) -> (usize, usize) {
        let line = self.line_of(offset);
        let content_end = self.ends[line];
        let upto = offset.min(content_end);
        let mut col = self.text[self.starts[line]..upto].encode_utf16().count();
        if offset > content_end {
            col += offset - content_end; // inside the terminator: one unit per terminator byte passed
        }
        (line, col)
    }

    /// (line, column) -> offset; None where the specification is silent (line past the end,
    /// column in the middle of a surrogate pair)
    pub fn from_pos(&self, line: usize, col: usize) -> Option<usize> {
        if line >= self.lines() {
            return None;
        }
        let mut units = 0usize;
        let mut off = self.starts[line];
        for c in self.text[self.starts[line]..self.ends[line]].chars() {
            if units == col {
                return Some(off);
            }
            if units > col {
                return None;
            }
            units += c.len_utf16();
            off += c.len_utf8();
        }
        if units > col {
            return None;
        }
        Some(self.ends[line])
    }
}
