//! Vendored corpus (/verif/corpus): real LLVM-14 .td files and small seed files.
use std::path::{Path, PathBuf};
use std::sync::OnceLock;

use crate::fw::sup::verif_dir;

fn walk(dir: &Path, out: &mut Vec<PathBuf>) {
    let Ok(rd) = std::fs::read_dir(dir) else { return };
    let mut entries: Vec<PathBuf> = rd.filter_map(|e| e.ok()).map(|e| e.path()).collect();
    entries.sort();
    for p in entries {
        if p.is_dir() {
            walk(&p, out);
        } else if p.extension().map(|e| e == "td").unwrap_or(false) {
            out.push(p);
        }
    }
}

pub fn llvm_root() -> PathBuf {
    verif_dir().join("corpus/llvm14")
}

fn load(sub: &str) -> Vec<(String, String)> {
    let root = verif_dir().join("corpus").join(sub);
    let mut files = Vec::new();
    walk(&root, &mut files);
    files
        .into_iter()
        .filter_map(|p| {
            let rel = p.strip_prefix(&root).ok()?.to_string_lossy().to_string();
            let txt = std::fs::read_to_string(&p).ok()?;
            Some((rel, txt))
        })
        .collect()
}

/// (relative path, text)
pub fn llvm() -> &'static Vec<(String, String)> {
    static C: OnceLock<Vec<(String, String)>> = OnceLock::new();
    C.get_or_init(|| load("llvm14"))
}

pub fn seeds() -> &'static Vec<(String, String)> {
    static C: OnceLock<Vec<(String, String)>> = OnceLock::new();
    C.get_or_init(|| load("seeds"))
}
