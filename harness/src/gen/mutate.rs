//! MUT — mutators over token lists and texts.
use crate::fw::Rng;
use crate::gen::tok;

pub const NON_ASCII: [&str; 19] = [
    "é", "€", "😀", "\u{2028}", "ß", "日本", "\u{feff}", "\u{a0}", "\u{85}", "\u{200b}", "\u{0}",
    // edges of the UTF-8 / UTF-16 length classes
    "\u{7ff}", "\u{800}", "\u{fff}", "\u{d7ff}", "\u{e000}", "\u{ffff}", "\u{10000}", "\u{10ffff}",
];
pub const UNTERMINATED: [&str; 7] = ["\"", "[{", "/*", "#ifdef X\n", "#else\n", "#ifndef Y", "\"a\\"];

/// Applies 1..=k token-level edits (delete / insert / duplicate / transpose / replace).
pub fn mutate_tokens(tokens: &[String], rng: &mut Rng, k: usize, alphabet: &[(&'static str, String)]) -> Vec<String> {
    let mut v = tokens.to_vec();
    for _ in 0..k {
        let len = v.len();
        match rng.below(5) {
            0 if len > 0 => {
                v.remove(rng.below(len));
            }
            1 => {
                let tok = alphabet[rng.below(alphabet.len())].1.clone();
                v.insert(rng.below(len + 1), tok);
            }
            2 if len > 0 => {
                let i = rng.below(len);
                let x = v[i].clone();
                v.insert(i, x);
            }
            3 if len > 1 => {
                let i = rng.below(len - 1);
                v.swap(i, i + 1);
            }
            _ if len > 0 => {
                let i = rng.below(len);
                v[i] = alphabet[rng.below(alphabet.len())].1.clone();
            }
            _ => {}
        }
    }
    v
}

fn char_boundaries(s: &str) -> Vec<usize> {
    let mut b: Vec<usize> = s.char_indices().map(|(i, _)| i).collect();
    b.push(s.len());
    b
}

/// Byte-level noise kept valid UTF-8: delete / duplicate / replace / insert characters.
pub fn char_noise(text: &str, rng: &mut Rng, k: usize) -> String {
    let mut s = text.to_string();
    const NOISE: [&str; 24] = [
        "\"", "[{", "}]", "/*", "*/", "//", "#", "!", "$", "\\", "\n", "\r", "\r\n", "\t", "\0", "{", "}", "<", ">", "..", "0x",
        "é", "😀", "\u{2028}",
    ];
    for _ in 0..k {
        let b = char_boundaries(&s);
        let i = b[rng.below(b.len())];
        match rng.below(4) {
            0 => {
                // delete one char
                if i < s.len() {
                    let c = s[i..].chars().next().unwrap();
                    s.replace_range(i..i + c.len_utf8(), "");
                }
            }
            1 => s.insert_str(i, NOISE[rng.below(NOISE.len())]),
            2 => {
                if i < s.len() {
                    let c = s[i..].chars().next().unwrap();
                    s.replace_range(i..i + c.len_utf8(), NOISE[rng.below(NOISE.len())]);
                }
            }
            _ => {
                // duplicate a short span
                let j = b[rng.below(b.len())];
                let (a, z) = if i <= j { (i, j) } else { (j, i) };
                let z = z.min(a + 24);
                let mut z2 = z;
                while !s.is_char_boundary(z2) {
                    z2 -= 1;
                }
                let span = s[a..z2].to_string();
                s.insert_str(a, &span);
            }
        }
        if s.len() > 1 << 16 {
            break;
        }
    }
    s
}

pub fn insert_non_ascii(text: &str, rng: &mut Rng, k: usize) -> String {
    let mut s = text.to_string();
    for _ in 0..k {
        let b = char_boundaries(&s);
        let i = b[rng.below(b.len())];
        s.insert_str(i, NON_ASCII[rng.below(NON_ASCII.len())]);
    }
    s
}

pub fn to_crlf(text: &str) -> String {
    text.replace("\r\n", "\n").replace('\n', "\r\n")
}

/// A random char-boundary prefix.
pub fn prefix_at(text: &str, rng: &mut Rng) -> String {
    let b = char_boundaries(text);
    text[..b[rng.below(b.len())]].to_string()
}

pub fn default_alphabet() -> Vec<(&'static str, String)> {
    tok::alphabet()
}
