//! SEM — scope-tracking semantic generator.
//!
//! Builds well-scoped, well-typed, multi-file programs of the supported core and records, by
//! construction, for every identifier occurrence what it declares or which declaration it
//! uses, for every declaration its kind / type / doc comment, for every block statement its
//! extent, and for every class reference its argument -> parameter binding.
use std::collections::BTreeMap;

use crate::fw::Rng;

#[derive(Clone, Debug, PartialEq)]
pub enum Ty {
    Bit,
    Int,
    Str,
    Dag,
    Code,
    Bits(usize),
    List(Box<Ty>),
    Class(String),
}

impl Ty {
    pub fn render(&self) -> String {
        match self {
            Ty::Bit => "bit".into(),
            Ty::Int => "int".into(),
            Ty::Str => "string".into(),
            Ty::Dag => "dag".into(),
            Ty::Code => "code".into(),
            Ty::Bits(n) => format!("bits<{n}>"),
            Ty::List(t) => format!("list<{}>", t.render()),
            Ty::Class(c) => c.clone(),
        }
    }
}

#[derive(Clone, Copy, Debug, PartialEq, Eq)]
pub enum DeclKind {
    Class,
    Def,
    Defset,
    Multiclass,
    Defm,
    TemplateArg,
    Field,
    Defvar,
    ForeachVar,
    BangVar,
}

#[derive(Clone, Debug)]
pub struct Decl {
    pub id: usize,
    pub kind: DeclKind,
    pub name: String,
    pub file: usize,
    pub range: (usize, usize),
    /// declared type where the construct has one (fields, template arguments, defsets);
    /// variables carry the type of their initialiser
    pub ty: Option<Ty>,
    /// adjacent `//` doc lines above the declaring statement
    pub doc: Option<String>,
    /// owner (class / def / multiclass decl id) of template arguments and fields
    pub owner: Option<usize>,
    /// set when a later `let` overrides this field somewhere (reference sets are then not asserted)
    pub overridden: bool,
    /// a def named by a paste expression (`def X#i`): its outline entry is not asserted
    pub pasted: bool,
}

#[derive(Clone, Debug, PartialEq)]
pub enum Role {
    Decl(usize),
    Use(usize),
    /// a field override `let f = …` naming field `usize` (resolves to the field or to itself)
    Override(usize),
    /// a use placed after the construct that declared the name has ended
    UseAfterScope(usize),
}

#[derive(Clone, Debug)]
pub struct Occ {
    pub file: usize,
    pub range: (usize, usize),
    pub role: Role,
}

#[derive(Clone, Debug)]
pub struct StmtInfo {
    pub file: usize,
    pub kind: &'static str, // Class Def Defset Foreach If Let MultiClass (folding), others informational
    pub range: (usize, usize),
    /// nesting path of outline containers: defset decl id if directly inside a defset
    pub in_defset: Option<usize>,
    pub top_level: bool,
    pub decl: Option<usize>,
    /// outline entry not asserted (def inside a multiclass body, def named by a paste expression)
    pub optional: bool,
}

#[derive(Clone, Debug)]
pub struct ClassRefInfo {
    pub file: usize,
    /// range of the class name identifier
    pub name_range: (usize, usize),
    pub class_decl: usize,
    /// positional arguments: (first byte, parameter name)
    pub positional: Vec<(usize, String)>,
    pub is_multiclass: bool,
    /// range of `<…>` (None when written without an argument list)
    pub args_range: Option<(usize, usize)>,
    /// number of parameters without default / total number of parameters
    pub required: usize,
    pub params: usize,
    /// where the first `name = value` argument starts (after the positional ones), if any
    pub first_named: Option<usize>,
}

#[derive(Clone, Debug)]
pub struct LetInfo {
    pub file: usize,
    /// range of the field identifier in `let f = …;`
    pub name_range: (usize, usize),
    pub field_ty: Ty,
    pub field_name: String,
    /// decl id of the class / def whose body contains the override
    pub owner: usize,
    /// adjacent `//` doc lines above the `let` (what hover on the overriding name shows)
    pub doc: Option<String>,
}

#[derive(Clone, Debug, Default)]
pub struct Features {
    pub nested_scopes: usize,
    pub shadowing: bool,
    pub cross_file_use: bool,
    pub after_scope_probes: usize,
    pub decl_kinds: std::collections::BTreeSet<&'static str>,
    pub bang_ops: usize,
    pub multiclass_without_targs: bool,
    pub has_defset: bool,
    pub has_multiclass: bool,
    pub nesting_constructs: usize,
}

#[derive(Clone, Debug, Default)]
pub struct Program {
    pub files: Vec<(String, String)>, // file 0 is the root
    pub decls: Vec<Decl>,
    pub occs: Vec<Occ>,
    pub stmts: Vec<StmtInfo>,
    pub classrefs: Vec<ClassRefInfo>,
    pub lets: Vec<LetInfo>,
    pub feat: Features,
    /// (file, range, feature name) of the less common constructs, innermost last
    pub spans: Vec<(usize, (usize, usize), &'static str)>,
    /// values written where a declared type is known: (file, range, type, context)
    pub typed_sites: Vec<(usize, (usize, usize), Ty, &'static str)>,
    /// bang operator applications: (file, operator, position of ")", number of operands, start)
    pub bang_sites: Vec<(usize, String, usize, usize, usize)>,
}

#[derive(Clone, Debug)]
struct ClassInfo {
    decl: usize,
    name: String,
    /// (name, type, has default, decl id)
    targs: Vec<(String, Ty, bool, usize)>,
    /// own and inherited fields: name -> (type, decl id of the original declaration)
    fields: BTreeMap<String, (Ty, usize)>,
    parents: Vec<String>,
}

#[derive(Clone, Debug)]
struct DefInfo {
    decl: usize,
    name: String,
    class: Option<String>,
    /// the record a defm defines under its own name (`def "" : K` in its multiclass): a value of
    /// class K whose declaration is the defm; the indexer does not know its class
    via_defm: bool,
}

#[derive(Clone, Debug)]
struct McInfo {
    decl: usize,
    name: String,
    targs: Vec<(String, Ty, bool, usize)>,
    /// the records an instantiation defines: (name relative to the defm's name, class); `def "" : K`
    /// is ("", K), `def _d : K` is ("_d", K), an inner `defm _m : M2` contributes "_m" + each of M2's
    records: Vec<(String, Option<String>)>,
}

#[derive(Clone, Debug)]
struct Var {
    name: String,
    ty: Ty,
    decl: usize,
}

#[derive(Clone, Copy, PartialEq, Debug)]
pub enum Opts {
    /// everything in scope, no probes (C13 well-formed programs, C18, C19)
    Clean,
    /// plus use-after-scope probes (C05)
    WithProbes,
}

pub struct Sem<'a> {
    rng: &'a mut Rng,
    pub p: Program,
    cur: usize, // current file
    classes: Vec<ClassInfo>,
    defs: Vec<DefInfo>,
    mcs: Vec<McInfo>,
    /// lexical variable scopes (defvar / foreach / bang variables), innermost last
    scopes: Vec<Vec<Var>>,
    /// record context: template args and fields visible as plain identifiers
    rec_targs: Vec<(String, Ty, usize)>,
    rec_fields: Vec<(String, Ty, usize)>,
    counter: usize,
    opts: Opts,
    indent: usize,
    depth: usize,
    in_defset: Option<usize>,
    /// names that went out of scope: (name, decl) usable for probes
    dead: Vec<(String, usize)>,
    pub exclude_if_let_scope_probe: bool,
    loop_vars: Vec<String>,
    /// >0 inside an `if` branch: defs there exist only conditionally and are not used later
    cond_depth: usize,
    /// number of variable scopes that lie outside the record being written (None: not in a record)
    rec_base: Option<usize>,
    /// names that must not be mentioned at the current point (their resolution is ambiguous or
    /// differs between TableGen versions)
    hidden: Vec<String>,
    uninit: std::collections::BTreeSet<usize>,
    /// values of the enclosing foreach loops' lists where they are literal (parallel to loop_vars)
    loop_values: Vec<Option<Vec<i64>>>,
    /// defs with a pasted name written in the current outermost loop: (prefix, decl, class, iterator values)
    loop_defs: Vec<(String, usize, String, Vec<i64>)>,
    /// records defined by the defs of the multiclass body being written (relative name, class)
    mc_records: Vec<(String, Option<String>)>,
    /// classes a header has declared (`class K;`) for the root to define
    pending_fwd: Vec<String>,
    /// inherited field declarations that some record declared again
    redeclared: std::collections::BTreeSet<usize>,
    wrote_unset: bool,
    mc_depth: usize,
    /// number of values written so far whose type the indexer cannot compute
    untyped_uses: usize,
    /// declarations whose type is unknown to the indexer (initialised through an untyped value)
    tainted: std::collections::BTreeSet<usize>,
    /// constructs not to generate (excluded by construction because of a listed known finding)
    pub disabled: std::collections::BTreeSet<String>,
    pub excluded: usize,
}

const FIELD_TYPES: [fn() -> Ty; 12] = [
    || Ty::Int,
    || Ty::Str,
    || Ty::Bit,
    || Ty::Bits(4),
    || Ty::List(Box::new(Ty::Int)),
    || Ty::List(Box::new(Ty::Str)),
    || Ty::Dag,
    || Ty::Code,
    || Ty::Int,
    || Ty::Str,
    || Ty::List(Box::new(Ty::Bit)),
    || Ty::List(Box::new(Ty::List(Box::new(Ty::Int)))),
];

impl<'a> Sem<'a> {
    pub fn new(rng: &'a mut Rng, opts: Opts) -> Self {
        let mut p = Program::default();
        p.files.push(("root.td".into(), String::new()));
        Sem {
            rng,
            p,
            cur: 0,
            classes: Vec::new(),
            defs: Vec::new(),
            mcs: Vec::new(),
            scopes: vec![Vec::new()],
            rec_targs: Vec::new(),
            rec_fields: Vec::new(),
            counter: 0,
            opts,
            indent: 0,
            depth: 0,
            in_defset: None,
            dead: Vec::new(),
            exclude_if_let_scope_probe: false,
            loop_vars: Vec::new(),
            cond_depth: 0,
            rec_base: None,
            hidden: Vec::new(),
            uninit: Default::default(),
            redeclared: Default::default(),
            pending_fwd: Vec::new(),
            mc_records: Vec::new(),
            loop_values: Vec::new(),
            loop_defs: Vec::new(),
            wrote_unset: false,
            mc_depth: 0,
            untyped_uses: 0,
            tainted: Default::default(),
            disabled: Default::default(),
            excluded: 0,
        }
    }

    // ---- text emission -----------------------------------------------------------------

    fn w(&mut self, s: &str) {
        self.p.files[self.cur].1.push_str(s);
    }
    fn here(&self) -> usize {
        self.p.files[self.cur].1.len()
    }
    fn nl(&mut self) {
        self.w("\n");
        let ind = "  ".repeat(self.indent);
        self.w(&ind);
    }
    fn fresh(&mut self, prefix: &str) -> String {
        self.counter += 1;
        format!("{prefix}{}", self.counter)
    }
    fn ident(&mut self, name: &str, role: Role) -> (usize, usize) {
        let s = self.here();
        self.w(name);
        let r = (s, self.here());
        if let Role::Use(d) = &role {
            // a record a defm has defined under a composed name (`SLLI` of `defm SLL`): the name is a
            // value, but no identifier anywhere declares it - nothing to go to, no occurrence
            if matches!(self.p.decls[*d].kind, DeclKind::Defm | DeclKind::Def) && self.p.decls[*d].name != name {
                self.p.spans.push((self.cur, r, "composed-record-name"));
                // (the indexer knows that the record exists, not what class it has)
                self.untyped_uses += 1;
                return r;
            }
            if self.p.decls[*d].file != self.cur {
                self.p.feat.cross_file_use = true;
            }
            if self.tainted.contains(d) {
                self.untyped_uses += 1;
            }
        }
        self.p.occs.push(Occ { file: self.cur, range: r, role });
        r
    }
    fn declare(&mut self, kind: DeclKind, name: &str, ty: Option<Ty>, doc: Option<String>, owner: Option<usize>) -> usize {
        let id = self.p.decls.len();
        let s = self.here();
        self.w(name);
        let r = (s, self.here());
        self.p.decls.push(Decl { id, kind, name: name.to_string(), file: self.cur, range: r, ty, doc, owner, overridden: false, pasted: false });
        self.p.occs.push(Occ { file: self.cur, range: r, role: Role::Decl(id) });
        self.p.feat.decl_kinds.insert(match kind {
            DeclKind::Class => "class",
            DeclKind::Def => "def",
            DeclKind::Defset => "defset",
            DeclKind::Multiclass => "multiclass",
            DeclKind::Defm => "defm",
            DeclKind::TemplateArg => "template-arg",
            DeclKind::Field => "field",
            DeclKind::Defvar => "defvar",
            DeclKind::ForeachVar => "foreach",
            DeclKind::BangVar => "bang-var",
        });
        id
    }

    /// inside foreach loops a def must be named differently in every iteration: `def X#i#j`
    /// returns true when the def must not be used by name later (pasted name, or conditional)
    fn paste_suffix(&mut self, decl: usize) -> bool {
        if self.loop_vars.is_empty() {
            return self.cond_depth > 0;
        }
        for v in self.loop_vars.clone() {
            self.w("#\"_\"#");
            // the iterator is used here like anywhere else
            let d = self.scopes.iter().rev().find_map(|sc| sc.iter().rev().find(|x| x.name == v)).map(|x| x.decl);
            match d {
                Some(d) if self.on("iterator-in-def-name") => {
                    let st = self.here();
                    self.ident(&v, Role::Use(d));
                    self.span("iterator-in-def-name", st);
                }
                _ => self.w(&v),
            }
        }
        self.p.decls[decl].pasted = true;
        true
    }

    /// optional doc comment directly above the statement about to be written
    fn doc_comment(&mut self) -> Option<String> {
        match self.rng.below(7) {
            6 => {
                // text that begins with a slash itself (a path, a commented-out comment) or holds some
                let a = match self.rng.below(3) {
                    0 => self.fresh("/usr/share/doc/"),
                    1 => self.fresh("// FIXME: old "),
                    _ => self.fresh("/enc/ is a key, see a//b "),
                };
                self.w(&format!("// {a}"));
                self.nl();
                Some(a)
            }
            0 => {
                let a = self.fresh("doc line ");
                self.w(&format!("// {a}"));
                self.nl();
                Some(a)
            }
            1 => {
                let a = self.fresh("first ");
                let b = self.fresh("second ");
                self.w(&format!("// {a}"));
                self.nl();
                self.w(&format!("//{b}"));
                self.nl();
                Some(format!("{a}\n{b}"))
            }
            2 => {
                // separated by a blank line: not a doc comment
                let a = self.fresh("detached ");
                self.w(&format!("// {a}"));
                // the separating blank line may hold spaces or tabs
                match self.rng.below(3) {
                    0 => self.w("\n"),
                    1 => self.w("\n  "),
                    _ => self.w("\n\t "),
                }
                self.nl();
                None
            }
            3 => {
                // a block comment directly above is not a doc comment either
                self.w("/* block */");
                self.nl();
                None
            }
            _ => None,
        }
    }

    // ---- environment lookups -----------------------------------------------------------

    fn class(&self, name: &str) -> Option<&ClassInfo> {
        self.classes.iter().rev().find(|c| c.name == name)
    }

    fn is_subclass(&self, c: &str, of: &str) -> bool {
        if c == of {
            return true;
        }
        match self.class(c) {
            Some(ci) => ci.parents.iter().any(|p| self.is_subclass(p, of)),
            None => false,
        }
    }

    fn ancestors(&self, c: &str) -> std::collections::BTreeSet<String> {
        let mut out = std::collections::BTreeSet::new();
        let mut st = vec![c.to_string()];
        while let Some(x) = st.pop() {
            if out.insert(x.clone()) {
                if let Some(ci) = self.class(&x) {
                    st.extend(ci.parents.iter().cloned());
                }
            }
        }
        out
    }

    /// every visible name in lookup order (the first entry of a name is the one it resolves to):
    /// variables declared inside the current record (innermost first), the record's fields, its
    /// template arguments, then the variables of the enclosing scopes
    fn visible_names(&self) -> Vec<(String, Ty, usize)> {
        let base = self.rec_base.unwrap_or(self.scopes.len()).min(self.scopes.len());
        let mut out: Vec<(String, Ty, usize)> = Vec::new();
        let push = |n: &String, t: &Ty, d: usize, out: &mut Vec<(String, Ty, usize)>| {
            if !out.iter().any(|x| x.0 == *n) && !self.hidden.contains(n) {
                out.push((n.clone(), t.clone(), d));
            }
        };
        if self.rec_base.is_some() {
            for sc in self.scopes[base..].iter().rev() {
                for v in sc.iter().rev() {
                    push(&v.name, &v.ty, v.decl, &mut out);
                }
            }
        }
        for (n, t, d) in self.rec_fields.iter().rev() {
            push(n, t, *d, &mut out);
        }
        for (n, t, d) in self.rec_targs.iter().rev() {
            push(n, t, *d, &mut out);
        }
        let outer_end = if self.rec_base.is_some() { base } else { self.scopes.len() };
        for sc in self.scopes[..outer_end].iter().rev() {
            for v in sc.iter().rev() {
                push(&v.name, &v.ty, v.decl, &mut out);
            }
        }
        out
    }

    /// visible names of exactly type `ty`
    fn visible_of_type(&self, ty: &Ty) -> Vec<(String, usize)> {
        self.visible_names().into_iter().filter(|x| x.1 == *ty).map(|x| (x.0, x.2)).collect()
    }

    fn defs_of_class(&self, class: &str) -> Vec<(String, usize)> {
        // a def is visible as a value unless a local name shadows it
        self.defs
            .iter()
            .filter(|d| d.class.as_deref().map(|c| self.is_subclass(c, class)).unwrap_or(false))
            .filter(|d| !self.name_is_local(&d.name))
            .map(|d| (d.name.clone(), d.decl))
            .collect()
    }

    fn name_is_local(&self, name: &str) -> bool {
        self.scopes.iter().any(|s| s.iter().any(|v| v.name == name))
            || self.rec_fields.iter().any(|f| f.0 == name)
            || self.rec_targs.iter().any(|f| f.0 == name)
    }

    /// writes a type, recording class names in it as uses
    fn write_type(&mut self, ty: &Ty) {
        match ty {
            Ty::List(el) => {
                self.w("list<");
                let el = (**el).clone();
                self.write_type(&el);
                self.w(">");
            }
            Ty::Class(c) => {
                let d = self.class(c).map(|ci| ci.decl);
                let c = c.clone();
                match d {
                    Some(d) => {
                        self.ident(&c, Role::Use(d));
                    }
                    None => self.w(&c),
                }
            }
            other => {
                let r = other.render();
                self.w(&r)
            }
        }
    }

    fn on(&mut self, feature: &str) -> bool {
        if self.disabled.contains(feature) {
            self.excluded += 1;
            false
        } else {
            true
        }
    }
    fn span(&mut self, feature: &'static str, start: usize) {
        let r = (start, self.here());
        self.p.spans.push((self.cur, r, feature));
    }
    fn visible_bits_at_least(&self, n: usize) -> Vec<(String, usize, usize)> {
        let mut out = Vec::new();
        for m in [4usize, 8] {
            if m >= n {
                for (name, d) in self.visible_of_type(&Ty::Bits(m)) {
                    out.push((name, d, m));
                }
            }
        }
        out
    }

    // ---- values --------------------------------------------------------------------------

    /// writes a value of type `ty`
    pub fn value(&mut self, ty: &Ty, depth: usize) {
        // a visible name of that type, often
        let vis = self.visible_of_type(ty);
        if !vis.is_empty() && self.rng.chance(2, 5) {
            let (n, d) = vis[self.rng.below(vis.len())].clone();
            self.ident(&n, Role::Use(d));
            return;
        }
        let deep = depth >= 2;
        // a field of a def (or of a class-typed variable) of exactly this type: `d.f`
        if !deep && matches!(ty, Ty::Str | Ty::Bit | Ty::List(_)) && self.rng.chance(1, 4) && self.has_field_access(ty) {
            self.field_access(ty, depth);
            return;
        }
        // the wider operator catalogue (one application, operands generated recursively)
        if !deep && self.rng.chance(1, 4) && self.catalog(ty, depth) {
            return;
        }
        match ty {
            Ty::Int => match self.rng.below(if deep { 2 } else { 13 }) {
                0 | 1 => {
                    let v = self.rng.below(100).to_string();
                    self.w(&v)
                }
                9 if !self.visible_of_type(&Ty::List(Box::new(Ty::Int))).is_empty() && self.on("list-index") => {
                    let st = self.here();
                    self.value_atom_list_int(depth);
                    // the index is a value of its own: a literal, or a visible integer
                    let ints = self.visible_of_type(&Ty::Int);
                    if !ints.is_empty() && self.rng.chance(1, 2) && self.on("list-index-by-name") {
                        let (n, d) = ints[self.rng.below(ints.len())].clone();
                        self.w("[");
                        self.ident(&n, Role::Use(d));
                        self.w("]");
                    } else {
                        self.w("[0]");
                    }
                    self.span("list-index", st);
                }
                10 if self.on("head") => {
                    let st = self.here();
                    self.bang("!head", &[Ty::List(Box::new(Ty::Int))], depth);
                    self.span("head", st);
                }
                11 if self.on("cond") => {
                    let st = self.here();
                    self.p.feat.bang_ops += 1;
                    self.w("!cond(");
                    self.value(&Ty::Bit, depth + 1);
                    self.w(": ");
                    self.value(&Ty::Int, depth + 1);
                    self.w(", true: ");
                    self.value(&Ty::Int, depth + 1);
                    self.w(")");
                    self.span("cond", st);
                }
                12 if self.on("foldl") => {
                    let st = self.here();
                    self.bang_foldl(depth);
                    self.span("foldl", st);
                }
                9..=12 => {
                    let v = self.rng.below(100).to_string();
                    self.w(&v)
                }
                2 => self.bang("!add", &[Ty::Int, Ty::Int], depth),
                3 => self.bang("!mul", &[Ty::Int, Ty::Int, Ty::Int], depth),
                4 => self.bang("!sub", &[Ty::Int, Ty::Int], depth),
                5 => self.bang("!size", &[Ty::List(Box::new(Ty::Int))], depth),
                6 => self.bang("!if", &[Ty::Bit, Ty::Int, Ty::Int], depth),
                7 => self.bang("!shl", &[Ty::Int, Ty::Int], depth),
                _ => self.field_access(&Ty::Int, depth),
            },
            Ty::Str if self.mc_depth > 0 && self.rng.chance(1, 6) && self.on("NAME") => {
                // the implicit NAME of the enclosing defm (no declaration to point at)
                let st = self.here();
                self.w("NAME");
                self.span("NAME", st);
            }
            Ty::Str => match self.rng.below(if deep { 2 } else { 9 }) {
                0 | 1 => {
                    let v = self.fresh("s");
                    // escape sequences, also right in front of the closing quote
                    let esc = if self.rng.chance(1, 5) { ["\\\\", "\\\"", "a\\\"b", "\\t\\n", ":\\\\", "\\'", "\\\\\\\\"][self.rng.below(7)] } else { "" };
                    self.w(&format!("\"{v}{esc}\""))
                }
                7 if self.on("getdagname-index") && !self.defs.is_empty() => {
                    let st = self.here();
                    self.p.feat.bang_ops += 1;
                    self.w("!getdagname(");
                    self.value(&Ty::Dag, depth + 1);
                    self.w(", 0)");
                    self.span("getdagname-index", st);
                }
                8 if self.on("cast-string") && !self.defs.is_empty() => {
                    let st = self.here();
                    self.p.feat.bang_ops += 1;
                    let cands: Vec<(String, usize)> = self.defs.iter().filter(|d| !self.name_is_local(&d.name)).map(|d| (d.name.clone(), d.decl)).collect();
                    if cands.is_empty() {
                        self.w("\"none\"");
                    } else {
                        let (n, d) = cands[self.rng.below(cands.len())].clone();
                        self.w("!cast<string>(");
                        self.ident(&n, Role::Use(d));
                        self.w(")");
                    }
                    self.span("cast-string", st);
                }
                7 | 8 => {
                    let v = self.fresh("s");
                    self.w(&format!("\"{v}\""))
                }
                2 => self.bang("!strconcat", &[Ty::Str, Ty::Str], depth),
                3 => {
                    self.value(&Ty::Str, depth + 1);
                    self.w(" # ");
                    self.value(&Ty::Str, depth + 1);
                }
                4 => self.bang("!tolower", &[Ty::Str], depth),
                5 => {
                    self.p.feat.bang_ops += 1;
                    self.w("!substr(");
                    self.value(&Ty::Str, depth + 1);
                    let k = self.rng.below(2).to_string();
                    self.w(", ");
                    self.w(&k);
                    self.w(")");
                }
                _ => self.bang("!interleave", &[Ty::List(Box::new(Ty::Str)), Ty::Str], depth),
            },
            Ty::Bit => match self.rng.below(if deep { 2 } else { 9 }) {
                7 if self.on("bit-of-bits") && !self.visible_bits_at_least(1).is_empty() => {
                    let st = self.here();
                    let c = self.visible_bits_at_least(1);
                    let (n, d, m) = c[self.rng.below(c.len())].clone();
                    self.ident(&n, Role::Use(d));
                    let k = self.rng.below(m);
                    self.w(&format!("{{{k}}}"));
                    self.span("bit-of-bits", st);
                }
                8 if self.on("isa") && !self.classes.is_empty() && !self.defs.is_empty() => {
                    let st = self.here();
                    self.p.feat.bang_ops += 1;
                    let c = self.classes[self.rng.below(self.classes.len())].clone();
                    let cands: Vec<(String, usize)> = self.defs.iter().filter(|d| !self.name_is_local(&d.name)).map(|d| (d.name.clone(), d.decl)).collect();
                    if cands.is_empty() {
                        self.w("true");
                    } else {
                        let (n, d) = cands[self.rng.below(cands.len())].clone();
                        self.w("!isa<");
                        self.ident(&c.name, Role::Use(c.decl));
                        self.w(">(");
                        self.ident(&n, Role::Use(d));
                        self.w(")");
                    }
                    self.span("isa", st);
                }
                7 | 8 if self.int_bit_select() => {}
                7 | 8 => self.w("false"),
                0 => self.w("true"),
                1 => self.w("false"),
                2 => self.bang("!eq", &[Ty::Int, Ty::Int], depth),
                3 => self.bang("!lt", &[Ty::Int, Ty::Int], depth),
                4 => self.bang("!not", &[Ty::Bit], depth),
                5 => self.bang("!empty", &[Ty::List(Box::new(Ty::Int))], depth),
                _ => self.bang("!ne", &[Ty::Str, Ty::Str], depth),
            },
            Ty::Bits(n) if self.rng.chance(1, 3) && !self.visible_bits_at_least(*n).is_empty() && self.on("bits-range-slice") => {
                // a slice of n bits out of a wider (or equal) bits value
                let st = self.here();
                let c = self.visible_bits_at_least(*n);
                let (name, d, m) = c[self.rng.below(c.len())].clone();
                self.ident(&name, Role::Use(d));
                let lo = self.rng.below(m - n + 1);
                let hi = lo + n - 1;
                match self.rng.below(3) {
                    0 => self.w(&format!("{{{hi}-{lo}}}")),
                    1 => self.w(&format!("{{{hi}...{lo}}}")),
                    _ => {
                        let list: Vec<String> = (lo..=hi).rev().map(|b| b.to_string()).collect();
                        self.w(&format!("{{{}}}", list.join(", ")));
                    }
                }
                self.span("bits-range-slice", st);
            }
            Ty::Bits(n) if *n >= 2 && self.rng.chance(1, 4) && self.on("bits-of-mixed-widths") => {
                // `{a, 0b10, 1}`: elements of several widths - a name of type bits<k>, a binary literal
                // (one bit per digit), single bits - that add up to n
                let st = self.here();
                let mut left = *n;
                self.w("{");
                let mut first = true;
                while left > 0 {
                    if !first {
                        self.w(", ");
                    }
                    first = false;
                    let k = 1 + self.rng.below(left);
                    let named = self.visible_of_type(&Ty::Bits(k));
                    if k >= 2 && !named.is_empty() && self.rng.chance(1, 2) {
                        let (nm, d) = named[self.rng.below(named.len())].clone();
                        self.ident(&nm, Role::Use(d));
                    } else if k >= 2 {
                        let mut lit = String::from("0b");
                        for _ in 0..k {
                            lit.push(if self.rng.chance(1, 2) { '1' } else { '0' });
                        }
                        self.w(&lit);
                    } else {
                        let b = if self.rng.chance(1, 2) { "1" } else { "0" };
                        self.w(b);
                    }
                    left -= k;
                }
                self.w("}");
                self.span("bits-of-mixed-widths", st);
            }
            Ty::Bits(n) => match self.rng.below(3) {
                0 => {
                    self.w("{");
                    for i in 0..*n {
                        if i > 0 {
                            self.w(", ");
                        }
                        let b = if self.rng.chance(1, 2) { "1" } else { "0" };
                        self.w(b);
                    }
                    self.w("}");
                }
                1 => {
                    let v = self.rng.below(1 << (*n).min(8)).to_string();
                    self.w(&v)
                }
                _ => {
                    let mut s = String::from("0b");
                    for _ in 0..*n {
                        s.push(if self.rng.chance(1, 2) { '1' } else { '0' });
                    }
                    self.w(&s)
                }
            },
            Ty::List(el) if !deep && matches!(**el, Ty::Int | Ty::Str | Ty::Class(_)) && self.rng.chance(1, 10) && self.on("list-paste") => {
                // `a # b` on lists is their concatenation
                let st = self.here();
                self.value(ty, depth + 1);
                self.w(" # ");
                self.value(ty, depth + 1);
                self.span("list-paste", st);
            }
            Ty::List(el) => {
                let el = (**el).clone();
                match self.rng.below(if deep { 2 } else { 8 }) {
                    0 if matches!(el, Ty::Int | Ty::Str | Ty::Class(_)) && self.rng.chance(1, 3) && self.on("typed-empty-list") => {
                        // the empty list with its element type spelled out
                        self.w("[]<");
                        self.write_type(&el);
                        self.w(">");
                    }
                    0 | 1 | 2 => {
                        let k = 1 + self.rng.below(3);
                        let literal_start = self.here();
                        self.w("[");
                        let untyped_before = self.untyped_uses;
                        let mut elements = Vec::new();
                        for i in 0..k {
                            if i > 0 {
                                self.w(", ");
                            }
                            let e0 = self.here();
                            self.value(&el, depth + 1);
                            elements.push((e0, self.here()));
                        }
                        // (an element whose type the indexer cannot compute agrees with everything)
                        // (and a literal of one element is a list of whatever that element is)
                        if k >= 2 && self.untyped_uses == untyped_before && self.on("list-element-sites") {
                            for r in elements {
                                self.p.typed_sites.push((self.cur, r, el.clone(), "list-element"));
                            }
                        }
                        if self.rng.chance(1, 8) && self.on("trailing-comma") {
                            self.w(",");
                        }
                        self.w("]");
                        self.span("list-literal", literal_start);
                    }
                    3 if matches!(el, Ty::Int | Ty::Str) => self.bang("!listconcat", &[ty.clone(), ty.clone()], depth),
                    4 => self.bang("!tail", &[ty.clone()], depth),
                    5 if el == Ty::Int => self.bang_foreach(&el, depth),
                    6 if el == Ty::Int => self.bang_filter(depth),
                    7 if el == Ty::Int => self.bang("!range", &[Ty::Int], depth),
                    6 | 7 if matches!(el, Ty::Class(_)) && self.on("listconcat-defs") => {
                        let st = self.here();
                        self.p.feat.bang_ops += 1;
                        self.w("!listconcat([");
                        self.value(&el, depth + 1);
                        self.w("], [");
                        self.value(&el, depth + 1);
                        self.w("])");
                        self.span("listconcat-defs", st);
                    }
                    5 if el == Ty::Str && self.on("list-slice") => {
                        let st = self.here();
                        self.w("[");
                        self.value(&el, depth + 1);
                        self.w(", ");
                        self.value(&el, depth + 1);
                        self.w(", ");
                        self.value(&el, depth + 1);
                        self.w("][0...1]");
                        self.span("list-slice", st);
                    }
                    _ => {
                        self.w("[");
                        self.value(&el, depth + 1);
                        self.w("]");
                    }
                }
            }
            Ty::Dag if !deep && self.rng.chance(1, 4) && !self.defs.is_empty() && self.on("con") => {
                let st = self.here();
                self.bang("!con", &[Ty::Dag, Ty::Dag], depth);
                self.span("con", st);
            }
            Ty::Dag => {
                // operator: a def
                match self.defs.iter().filter(|d| !self.name_is_local(&d.name)).map(|d| (d.name.clone(), d.decl)).last() {
                    Some((n, d)) => {
                        self.w("(");
                        self.ident(&n, Role::Use(d));
                        let k = self.rng.below(3);
                        for i in 0..k {
                            self.w(if i == 0 { " " } else { ", " });
                            // an argument must not start with `[` or `{`: after the operator that would
                            // read as a slice / bit-range suffix of the operator itself
                            match self.rng.below(4) {
                                0 => self.w("$x"),
                                1 => {
                                    let v = self.rng.below(50).to_string();
                                    self.w(&v);
                                    self.w(":$a");
                                }
                                2 => {
                                    let vis = self.visible_of_type(&Ty::Int);
                                    if vis.is_empty() {
                                        self.w("7");
                                    } else {
                                        let (n, d) = vis[self.rng.below(vis.len())].clone();
                                        self.ident(&n, Role::Use(d));
                                    }
                                    self.w(":$b");
                                }
                                _ => {
                                    let v = self.fresh("s");
                                    self.w(&format!("\"{v}\""))
                                }
                            }
                        }
                        self.w(")");
                    }
                    None => {
                        self.wrote_unset = true;
                        self.w("?")
                    }
                }
            }
            Ty::Code => {
                if self.rng.chance(1, 2) {
                    self.w("[{ return 1; }]")
                } else {
                    self.w("\"code\"")
                }
            }
            Ty::Class(c) if self.rng.chance(1, 5) && !self.defs_of_class(c).is_empty() && self.on("cast-class") => {
                let st = self.here();
                self.p.feat.bang_ops += 1;
                let ds = self.defs_of_class(c);
                let (n, _) = ds[self.rng.below(ds.len())].clone();
                let cd = self.class(c).unwrap().decl;
                self.w("!cast<");
                let c2 = c.clone();
                self.ident(&c2, Role::Use(cd));
                self.w(&format!(">(\"{n}\")"));
                self.span("cast-class", st);
            }
            Ty::Class(c) if !deep && self.defs_of_class(c).len() >= 2 && self.rng.chance(1, 6) && self.on("if-of-records") => {
                // `!if(c, d1, d2)` of two records of the class: a value of the class
                let ds = self.defs_of_class(c);
                let i = self.rng.below(ds.len());
                let j = (i + 1 + self.rng.below(ds.len() - 1)) % ds.len();
                let st = self.here();
                self.p.feat.bang_ops += 1;
                self.w("!if(");
                self.value(&Ty::Bit, depth + 1);
                self.w(", ");
                self.ident(&ds[i].0, Role::Use(ds[i].1));
                self.w(", ");
                self.ident(&ds[j].0, Role::Use(ds[j].1));
                let close = self.here();
                self.w(")");
                self.p.bang_sites.push((self.cur, "!if".to_string(), close, 3, st));
                self.span("if-of-records", st);
            }
            Ty::Class(c) => {
                let ds = self.defs_of_class(c);
                if !ds.is_empty() && self.rng.chance(3, 4) {
                    let (n, d) = ds[self.rng.below(ds.len())].clone();
                    self.ident(&n, Role::Use(d));
                } else {
                    // anonymous record K<args>
                    let c = c.clone();
                    self.class_ref(&c, depth + 1, true);
                }
            }
        }
    }

    fn bang(&mut self, op: &str, args: &[Ty], depth: usize) {
        self.p.feat.bang_ops += 1;
        let op_start = self.here();
        self.w(op);
        self.w("(");
        // the integer operators take integers at every position, however many operands there are
        let int_op = ["!add", "!mul", "!sub", "!and", "!or", "!xor", "!shl", "!sra", "!srl", "!div"].contains(&op);
        for (i, t) in args.iter().enumerate() {
            if i > 0 {
                self.w(", ");
            }
            let v0 = self.here();
            self.value(t, depth + 1);
            if int_op && *t == Ty::Int {
                let r = (v0, self.here());
                self.p.typed_sites.push((self.cur, r, Ty::Int, "operator-operand"));
            }
        }
        let close = self.here();
        self.w(")");
        self.p.bang_sites.push((self.cur, op.to_string(), close, args.len(), op_start));
    }

    /// One application of a typed bang operator with result type `ty`, chosen from a catalogue
    /// written from the TableGen Programmer's Reference (operand and result types per operator).
    /// Returns false (writing nothing) if the catalogue has nothing for `ty` or the operator is disabled.
    fn catalog(&mut self, ty: &Ty, depth: usize) -> bool {
        let li = || Ty::List(Box::new(Ty::Int));
        let ls = || Ty::List(Box::new(Ty::Str));
        let entries: Vec<(&'static str, Vec<Ty>)> = match ty {
            Ty::Int => vec![
                ("!and", vec![Ty::Int, Ty::Int]),
                ("!or", vec![Ty::Int, Ty::Int, Ty::Int]),
                ("!xor", vec![Ty::Int, Ty::Int]),
                ("!div", vec![Ty::Int, Ty::Int]),
                ("!sra", vec![Ty::Int, Ty::Int]),
                ("!srl", vec![Ty::Int, Ty::Int]),
                ("!logtwo", vec![Ty::Int]),
                ("!find", vec![Ty::Str, Ty::Str]),
                ("!find", vec![Ty::Str, Ty::Str, Ty::Int]),
                ("!size", vec![Ty::Str]),
                ("!size", vec![Ty::Dag]),
                ("!size", vec![ls()]),
            ],
            Ty::Bit => vec![
                ("!ge", vec![Ty::Int, Ty::Int]),
                ("!gt", vec![Ty::Str, Ty::Str]),
                ("!le", vec![Ty::Int, Ty::Int]),
                ("!eq", vec![Ty::Str, Ty::Str]),
                ("!eq", vec![Ty::Bit, Ty::Bit]),
                ("!ne", vec![Ty::Int, Ty::Int]),
                ("!empty", vec![Ty::Str]),
                ("!empty", vec![Ty::Dag]),
                ("!initialized", vec![Ty::Int]),
                ("!initialized", vec![Ty::Str]),
                ("!exists<K>", vec![Ty::Str]),
            ],
            Ty::Str => vec![
                ("!toupper", vec![Ty::Str]),
                ("!subst", vec![Ty::Str, Ty::Str, Ty::Str]),
                ("!strconcat", vec![Ty::Str, Ty::Str, Ty::Str]),
                ("!repr", vec![Ty::Int]),
                ("!repr", vec![li()]),
                ("!interleave", vec![li(), Ty::Str]),
                ("!substr", vec![Ty::Str, Ty::Int, Ty::Int]),
            ],
            Ty::List(el) if **el == Ty::Int => vec![
                ("!listsplat", vec![Ty::Int, Ty::Int]),
                ("!listremove", vec![li(), li()]),
                ("!listflatten", vec![Ty::List(Box::new(li()))]),
                ("!range", vec![Ty::Int, Ty::Int]),
                ("!range", vec![Ty::Int, Ty::Int, Ty::Int]),
                ("!range", vec![ls()]),
                ("!listconcat", vec![li(), li(), li()]),
            ],
            Ty::List(el) if **el == Ty::Str => vec![("!listsplat", vec![Ty::Str, Ty::Int]), ("!listremove", vec![ls(), ls()]), ("!tail", vec![ls()])],
            Ty::Dag if !self.defs.is_empty() => vec![
                ("!setdagname", vec![Ty::Dag, Ty::Int, Ty::Str]),
                ("!setdagarg", vec![Ty::Dag, Ty::Int, Ty::Int]),
                ("!dag", vec![]),
                ("!setdagop", vec![]),
            ],
            _ => return false,
        };
        let (op, args) = entries[self.rng.below(entries.len())].clone();
        if args.contains(&Ty::Dag) && !self.defs.iter().any(|d| !self.name_is_local(&d.name)) {
            return false; // a dag operand needs a def as its operator
        }
        let feature = op.split('<').next().unwrap_or(op);
        if !self.on(feature) {
            return false;
        }
        let st = self.here();
        self.p.feat.bang_ops += 1;
        match op {
            "!exists<K>" => {
                if self.classes.is_empty() {
                    return false;
                }
                let c = self.classes[self.rng.below(self.classes.len())].clone();
                self.w("!exists<");
                self.ident(&c.name, Role::Use(c.decl));
                self.w(">(");
                self.value(&Ty::Str, depth + 1);
                self.w(")");
            }
            "!dag" | "!setdagop" => {
                let cands: Vec<(String, usize)> = self.defs.iter().filter(|d| !self.name_is_local(&d.name)).map(|d| (d.name.clone(), d.decl)).collect();
                if cands.is_empty() {
                    return false;
                }
                let (n, d) = cands[self.rng.below(cands.len())].clone();
                if op == "!dag" {
                    self.w("!dag(");
                    self.ident(&n, Role::Use(d));
                    self.w(", [");
                    self.value(&Ty::Int, depth + 1);
                    self.w(", ");
                    self.value(&Ty::Int, depth + 1);
                    self.w("], [\"a\", \"b\"])");
                } else {
                    self.w("!setdagop(");
                    self.value(&Ty::Dag, depth + 1);
                    self.w(", ");
                    self.ident(&n, Role::Use(d));
                    self.w(")");
                }
            }
            _ => {
                // written here rather than through bang(): the arity-fault seeder only knows the operators of bang()
                self.w(op);
                self.w("(");
                for (i, t) in args.iter().enumerate() {
                    if i > 0 {
                        self.w(", ");
                    }
                    // keep indices and counts small: the values are evaluated by real TableGen in the audit
                    if matches!((op, i), ("!substr", 1 | 2) | ("!find", 2) | ("!listsplat", 1) | ("!setdagname", 1) | ("!setdagarg", 1) | ("!sra" | "!srl", 1)) {
                        let k = self.rng.below(2).to_string();
                        self.w(&k);
                    } else {
                        self.value(t, depth + 1);
                    }
                }
                self.w(")");
            }
        }
        self.span(match feature {
            "!and" => "op-and", "!or" => "op-or", "!xor" => "op-xor", "!div" => "op-div", "!sra" => "op-sra", "!srl" => "op-srl",
            "!logtwo" => "op-logtwo", "!find" => "op-find", "!size" => "op-size", "!ge" => "op-ge", "!gt" => "op-gt", "!le" => "op-le",
            "!eq" => "op-eq", "!ne" => "op-ne", "!empty" => "op-empty", "!initialized" => "op-initialized", "!exists" => "op-exists",
            "!toupper" => "op-toupper", "!subst" => "op-subst", "!strconcat" => "op-strconcat", "!repr" => "op-repr",
            "!interleave" => "op-interleave", "!substr" => "op-substr", "!listsplat" => "op-listsplat", "!listremove" => "op-listremove",
            "!listflatten" => "op-listflatten", "!range" => "op-range", "!listconcat" => "op-listconcat", "!tail" => "op-tail",
            "!setdagname" => "op-setdagname", "!setdagarg" => "op-setdagarg", "!dag" => "op-dag", "!setdagop" => "op-setdagop",
            _ => "op-other",
        }, st);
        true
    }

    /// `n{k}` for a visible int name: valid TableGen (a bit of an int) whose type the indexer does
    /// not compute; returns false (writing nothing) when no int name is visible
    fn int_bit_select(&mut self) -> bool {
        if !self.on("int-bit-select") {
            return false;
        }
        // only defvar-declared ints: TableGen rejects a bit range on a value that is not known yet
        // (template argument, field, operator variable)
        let vis: Vec<(String, usize)> = self.visible_of_type(&Ty::Int).into_iter().filter(|(_, d)| self.p.decls[*d].kind == DeclKind::Defvar).collect();
        if vis.is_empty() {
            return false;
        }
        let st = self.here();
        let (n, d) = vis[self.rng.below(vis.len())].clone();
        self.ident(&n, Role::Use(d));
        let k = self.rng.below(4);
        self.w(&format!("{{{k}}}"));
        self.span("int-bit-select", st);
        self.untyped_uses += 1;
        true
    }

    /// a list<int> value that can take a `[0]` suffix: a visible variable or a literal list
    fn value_atom_list_int(&mut self, depth: usize) {
        let vis = self.visible_of_type(&Ty::List(Box::new(Ty::Int)));
        // (a list literal cannot be indexed directly where TableGen expects an int: it parses the
        // literal against the expected type first)
        let _ = depth;
        let (n, d) = vis[self.rng.below(vis.len())].clone();
        self.ident(&n, Role::Use(d));
    }

    /// `!foldl(<int>, <list<int>>, acc, x, !add(acc, x))`
    fn bang_foldl(&mut self, depth: usize) {
        self.p.feat.bang_ops += 1;
        self.w("!foldl(");
        let before = self.untyped_uses;
        self.value(&Ty::Int, depth + 1);
        self.w(", ");
        let l0 = self.here();
        let before_list = self.untyped_uses;
        self.value(&Ty::List(Box::new(Ty::Int)), depth + 1);
        if self.untyped_uses == before_list {
            // what an operator iterates over is a list: a typed site
            let r = (l0, self.here());
            self.p.typed_sites.push((self.cur, r, Ty::List(Box::new(Ty::Int)), "operator-operand"));
        }
        let operands_untyped = self.untyped_uses != before;
        self.w(", ");
        let acc = self.fresh("acc");
        let x = self.fresh("x");
        let mk = |me: &mut Self, name: &str| -> usize {
            let s = me.here();
            me.w(name);
            let r = (s, me.here());
            let d = me.p.decls.len();
            me.p.decls.push(Decl { id: d, kind: DeclKind::BangVar, name: name.to_string(), file: me.cur, range: r, ty: Some(Ty::Int), doc: None, owner: None, overridden: false, pasted: false });
            me.p.occs.push(Occ { file: me.cur, range: r, role: Role::Decl(d) });
            d
        };
        let da = mk(self, &acc);
        self.w(", ");
        let dx = mk(self, &x);
        if operands_untyped {
            for d in [da, dx] {
                self.p.decls[d].ty = None;
                self.tainted.insert(d);
            }
        }
        self.w(", ");
        self.scopes.push(vec![Var { name: acc.clone(), ty: Ty::Int, decl: da }, Var { name: x.clone(), ty: Ty::Int, decl: dx }]);
        self.p.feat.nested_scopes = self.p.feat.nested_scopes.max(self.scopes.len());
        self.w("!add(");
        self.ident(&acc, Role::Use(da));
        self.w(", ");
        self.ident(&x, Role::Use(dx));
        self.w(")");
        self.scopes.pop();
        self.dead.push((acc, da));
        self.dead.push((x, dx));
        self.w(")");
    }

    /// `!foreach(v, <list<int>>, <int expr using v>)`
    fn bang_foreach(&mut self, el: &Ty, depth: usize) {
        self.p.feat.bang_ops += 1;
        let outer_shadow = self.rng.chance(1, 4);
        let scope_var = self.scopes.iter().flatten().filter(|v| v.ty == Ty::Int).map(|v| (v.name.clone(), v.decl)).last();
        let name = match (outer_shadow, scope_var) {
            (true, Some((n, _))) => {
                self.p.feat.shadowing = true;
                n
            }
            _ => self.fresh("e"),
        };
        self.w("!foreach(");
        // the list operand is evaluated outside the variable's scope
        let id_pos = self.here();
        self.w(&name);
        let id_range = (id_pos, self.here());
        self.w(", ");
        let before = self.untyped_uses;
        let l0 = self.here();
        self.value(&Ty::List(Box::new(el.clone())), depth + 1);
        if self.untyped_uses == before {
            let r = (l0, self.here());
            self.p.typed_sites.push((self.cur, r, Ty::List(Box::new(el.clone())), "operator-operand"));
        }
        let var_ty = if self.untyped_uses != before { None } else { Some(el.clone()) };
        self.w(", ");
        let d = self.p.decls.len();
        self.p.decls.push(Decl { id: d, kind: DeclKind::BangVar, name: name.clone(), file: self.cur, range: id_range, ty: var_ty, doc: None, owner: None, overridden: false, pasted: false });
        self.p.occs.push(Occ { file: self.cur, range: id_range, role: Role::Decl(d) });
        if self.p.decls[d].ty.is_none() {
            self.tainted.insert(d);
        }
        self.p.feat.decl_kinds.insert("bang-var");
        self.scopes.push(vec![Var { name: name.clone(), ty: el.clone(), decl: d }]);
        self.p.feat.nested_scopes = self.p.feat.nested_scopes.max(self.scopes.len());
        // mostly a body that uses the variable; sometimes one whose type the indexer cannot compute
        // (the bound variable itself cannot be bit-selected in TableGen: mask it, and any outer
        // variable of the same name that it shadows)
        let hidden = self.scopes.pop().unwrap();
        self.scopes.push(vec![Var { name: name.clone(), ty: Ty::Dag, decl: d }]);
        let untyped = self.rng.chance(1, 4) && self.int_bit_select();
        self.scopes.pop();
        self.scopes.push(hidden);
        if !untyped {
            self.w("!add(");
            self.ident(&name, Role::Use(d));
            self.w(", ");
            self.value(&Ty::Int, depth + 2);
            self.w(")");
        }
        self.scopes.pop();
        self.dead.push((name, d));
        self.w(")");
    }

    /// `!filter(v, <list<int>>, <bit expr using v>)`
    fn bang_filter(&mut self, depth: usize) {
        self.p.feat.bang_ops += 1;
        let name = self.fresh("q");
        self.w("!filter(");
        let id_pos = self.here();
        self.w(&name);
        let id_range = (id_pos, self.here());
        self.w(", ");
        let before = self.untyped_uses;
        let l0 = self.here();
        self.value(&Ty::List(Box::new(Ty::Int)), depth + 1);
        if self.untyped_uses == before {
            let r = (l0, self.here());
            self.p.typed_sites.push((self.cur, r, Ty::List(Box::new(Ty::Int)), "operator-operand"));
        }
        let var_ty = if self.untyped_uses != before { None } else { Some(Ty::Int) };
        self.w(", ");
        let d = self.p.decls.len();
        self.p.decls.push(Decl { id: d, kind: DeclKind::BangVar, name: name.clone(), file: self.cur, range: id_range, ty: var_ty, doc: None, owner: None, overridden: false, pasted: false });
        self.p.occs.push(Occ { file: self.cur, range: id_range, role: Role::Decl(d) });
        if self.p.decls[d].ty.is_none() {
            self.tainted.insert(d);
        }
        self.scopes.push(vec![Var { name: name.clone(), ty: Ty::Int, decl: d }]);
        let hidden = self.scopes.pop().unwrap();
        self.scopes.push(vec![Var { name: name.clone(), ty: Ty::Dag, decl: d }]);
        let untyped = self.rng.chance(1, 4) && self.int_bit_select();
        self.scopes.pop();
        self.scopes.push(hidden);
        if !untyped {
            self.w("!lt(");
            self.ident(&name, Role::Use(d));
            self.w(", ");
            self.value(&Ty::Int, depth + 2);
            self.w(")");
        }
        self.scopes.pop();
        self.dead.push((name, d));
        self.w(")");
    }

    fn has_field_access(&self, ty: &Ty) -> bool {
        self.defs.iter().any(|d| {
            !self.name_is_local(&d.name)
                && !d.via_defm
                && d.class.as_deref().and_then(|c| self.class(c)).map(|ci| ci.fields.values().any(|(t, fd)| t == ty && !self.p.decls[*fd].overridden && !self.uninit.contains(fd) && !self.redeclared.contains(fd))).unwrap_or(false)
        })
    }

    /// `d.f` for a def `d` of a class with a field of type `ty` (falls back to a literal)
    fn field_access(&mut self, ty: &Ty, depth: usize) {
        let mut cands: Vec<(String, usize, String, usize)> = Vec::new();
        // class of the base for the candidates that are defs (other ways to write the same record)
        let mut def_class: BTreeMap<String, String> = BTreeMap::new();
        for d in &self.defs {
            if self.name_is_local(&d.name) || d.via_defm {
                continue;
            }
            if let Some(ci) = d.class.as_deref().and_then(|c| self.class(c)) {
                for (fname, (fty, fdecl)) in &ci.fields {
                    if fty == ty && !self.p.decls[*fdecl].overridden && !self.uninit.contains(fdecl) && !self.redeclared.contains(fdecl) {
                        cands.push((d.name.clone(), d.decl, fname.clone(), *fdecl));
                        def_class.insert(d.name.clone(), ci.name.clone());
                    }
                }
            }
        }
        // … and through visible variables of class type (e.g. the iterator of a foreach over defs)
        let class_vars: Vec<(String, usize, String)> = self
            .scopes
            .iter()
            .flatten()
            .filter_map(|v| match &v.ty {
                Ty::Class(c) => Some((v.name.clone(), v.decl, c.clone())),
                _ => None,
            })
            .collect();
        for (vn, vd, c) in class_vars {
            if self.visible_of_type(&Ty::Class(c.clone())).iter().all(|x| x.1 != vd) {
                continue; // shadowed
            }
            if let Some(ci) = self.class(&c) {
                for (fname, (fty, fdecl)) in &ci.fields {
                    if fty == ty && !self.p.decls[*fdecl].overridden && !self.uninit.contains(fdecl) && !self.redeclared.contains(fdecl) {
                        cands.push((vn.clone(), vd, fname.clone(), *fdecl));
                    }
                }
            }
        }
        if cands.is_empty() {
            let v = self.rng.below(50).to_string();
            self.w(&v);
            let _ = depth;
            return;
        }
        let (dn, dd, fname, fdecl) = cands[self.rng.below(cands.len())].clone();
        // the record may also be written as a cast of its name, as a class value, or as an element of a
        // defset it is a member of - the field after the dot is the same field
        let form = self.rng.below(8);
        match (form, def_class.get(&dn).cloned()) {
            (5, Some(c)) if self.on("field-of-cast") => {
                let cd = self.class(&c).map(|ci| ci.decl);
                self.w("!cast<");
                match cd {
                    Some(cd) => {
                        self.ident(&c, Role::Use(cd));
                    }
                    None => self.w(&c),
                }
                self.w(&format!(">(\"{dn}\")"));
                self.p.feat.bang_ops += 1;
            }
            (6, Some(c)) if depth < 2 && self.on("field-of-class-value") => {
                self.class_ref(&c, depth + 1, true);
            }
            (7, Some(c)) if self.on("field-of-list-element") => {
                let lists = self.visible_of_type(&Ty::List(Box::new(Ty::Class(c.clone()))));
                match lists.first().cloned() {
                    Some((ln, ld)) if self.p.decls[ld].kind == DeclKind::Defset => {
                        self.ident(&ln, Role::Use(ld));
                        self.w("[0]");
                    }
                    _ => {
                        self.ident(&dn, Role::Use(dd));
                    }
                }
            }
            _ => {
                self.ident(&dn, Role::Use(dd));
            }
        }
        self.w(".");
        self.ident(&fname, Role::Use(fdecl));
    }

    /// writes `K` or `K<args…>`; records the reference and the positional bindings
    fn class_ref(&mut self, class: &str, depth: usize, force_angle: bool) {
        let ci = self.class(class).cloned().expect("class_ref: unknown class");
        let name_range = self.ident(class, Role::Use(ci.decl));
        let required = ci.targs.iter().take_while(|t| !t.2).count();
        // number of positional args: at least the required ones
        let npos = if ci.targs.is_empty() { 0 } else { required + self.rng.below(ci.targs.len() - required + 1) };
        let mut positional = Vec::new();
        let named_only = npos == 0 && !ci.targs.is_empty() && self.rng.chance(1, 6);
        if npos == 0 && !force_angle && !named_only {
            self.p.classrefs.push(ClassRefInfo { file: self.cur, name_range, class_decl: ci.decl, positional, is_multiclass: false, args_range: None, required, params: ci.targs.len(), first_named: None });
            return;
        }
        let a0 = self.here();
        self.w("<");
        for i in 0..npos {
            if i > 0 {
                self.w(", ");
            }
            positional.push((self.here(), ci.targs[i].0.clone()));
            let t = ci.targs[i].1.clone();
            let v0 = self.here();
            if matches!(t, Ty::Int | Ty::Str | Ty::Bit) && self.rng.chance(1, 10) && self.on("cond") {
                // an argument that begins with `!cond` (an operator of its own kind to lexer and parser)
                let st = self.here();
                self.p.feat.bang_ops += 1;
                self.w("!cond(");
                self.value(&Ty::Bit, depth + 2);
                self.w(": ");
                self.value(&t, depth + 2);
                self.w(", true: ");
                self.value(&t, depth + 2);
                self.w(")");
                self.span("cond", st);
            } else {
                self.value(&t, depth + 1);
            }
            let r = (v0, self.here());
            self.p.typed_sites.push((self.cur, r, t, "template-arg"));
        }
        let mut first_named = None;
        // some of the remaining (defaulted) parameters by name: `K<1, p3 = 5>`
        if npos < ci.targs.len() && self.rng.chance(1, 3) && self.on("named-argument") {
            let mut rest: Vec<usize> = (npos..ci.targs.len()).collect();
            self.rng.shuffle(&mut rest);
            let k = 1 + self.rng.below(rest.len());
            for (j, &i) in rest.iter().take(k).enumerate() {
                if npos > 0 || j > 0 {
                    self.w(", ");
                }
                let st = self.here();
                if first_named.is_none() {
                    first_named = Some(st);
                }
                let pname = ci.targs[i].0.clone();
                self.w(&pname);
                self.w(" = ");
                let t = ci.targs[i].1.clone();
                let v0 = self.here();
                self.value(&t, depth + 1);
                let r = (v0, self.here());
                self.p.typed_sites.push((self.cur, r, t, "template-arg"));
                self.span("named-argument", st);
            }
        }
        self.w(">");
        let ar = Some((a0, self.here()));
        self.p.classrefs.push(ClassRefInfo { file: self.cur, name_range, class_decl: ci.decl, positional, is_multiclass: false, args_range: ar, required, params: ci.targs.len(), first_named });
    }

    // ---- declarations ------------------------------------------------------------------------

    fn template_args(&mut self, owner: usize) -> Vec<(String, Ty, bool, usize)> {
        let k = self.rng.below(4);
        let mut out: Vec<(String, Ty, bool, usize)> = Vec::new();
        if k == 0 {
            return out;
        }
        self.w("<");
        let first_default = self.rng.below(k + 1);
        for i in 0..k {
            if i > 0 {
                self.w(", ");
            }
            let ty = match self.rng.below(12) {
                0..=2 => Ty::Str,
                3..=5 => Ty::Bit,
                6 if self.on("template-arg-types") => Ty::Bits([4, 4, 1, 2][self.rng.below(4)]),
                7 if self.on("template-arg-types") => Ty::List(Box::new(Ty::Int)),
                8 if self.on("template-arg-types") => Ty::List(Box::new(Ty::Str)),
                // a parameter of class type: its arguments are records, often written as class values
                // `Inner<1>` nested in the outer argument list
                9 | 10 if self.on("class-typed-template-arg") && !self.classes.is_empty() => {
                    let c = self.classes[self.rng.below(self.classes.len())].name.clone();
                    Ty::Class(c)
                }
                _ => Ty::Int,
            };
            self.write_type(&ty);
            self.w(" ");
            let base = self.rec_base.unwrap_or(0).min(self.scopes.len());
            let outer: Vec<String> = self.scopes[..base].iter().flatten().map(|v| v.name.clone()).filter(|n| !out.iter().any(|t| t.0 == *n)).collect();
            let name = if !outer.is_empty() && self.rng.chance(1, 8) && self.on("template-arg-shadows-variable") {
                self.p.feat.shadowing = true;
                outer[self.rng.below(outer.len())].clone()
            } else {
                self.fresh("p")
            };
            let d = self.declare(DeclKind::TemplateArg, &name, Some(ty.clone()), None, Some(owner));
            let has_default = i >= first_default;
            if has_default {
                self.w(" = ");
                // defaults may use earlier template arguments (not the argument itself)
                self.hidden.push(name.clone());
                // now and then a default the indexer cannot type (a bit of a defvar int): the parameter is a
                // parameter all the same
                if !(ty == Ty::Bit && self.rng.chance(1, 3) && self.int_bit_select()) {
                    self.value(&ty, 2);
                }
                self.hidden.pop();
            }
            self.rec_targs.push((name.clone(), ty.clone(), d));
            out.push((name, ty, has_default, d));
        }
        self.w(">");
        out
    }

    fn parent_list(&mut self) -> Vec<String> {
        let mut parents = Vec::new();
        let hidden_mark = self.hidden.len();
        let fields_mark = self.rec_fields.len();
        if self.classes.is_empty() || self.rng.chance(1, 3) {
            return parents;
        }
        let k = 1 + self.rng.below(2);
        for i in 0..k {
            let c = self.classes[self.rng.below(self.classes.len())].name.clone();
            if parents.contains(&c) || parents.iter().any(|p: &String| !self.ancestors(p).is_disjoint(&self.ancestors(&c))) {
                continue;
            }
            // two parents must not bring fields of the same name with different types
            if parents.iter().any(|p: &String| {
                let a = self.class(p).unwrap();
                let b = self.class(&c).unwrap();
                a.fields.iter().any(|(n, (t, _))| b.fields.get(n).map(|(t2, _)| t2 != t).unwrap_or(false))
            }) {
                continue;
            }
            self.w(if i == 0 || parents.is_empty() { " : " } else { ", " });
            self.class_ref(&c, 1, false);
            // the fields of a parent are in scope in the argument lists of the parents after it
            // (TableGen adds each superclass before it parses the next): they are visible there as
            // fields; a name that also names an outer variable is not mentioned (which of the two
            // wins differs between TableGen versions), nor is a field without a value
            let fs: Vec<(String, Ty, usize)> = self.class(&c).map(|ci| ci.fields.iter().map(|(n, (t, d))| (n.clone(), t.clone(), *d)).collect()).unwrap_or_default();
            for (n, t, d) in fs {
                let collides = self.scopes.iter().flatten().any(|v| v.name == n) || self.rec_targs.iter().any(|x| x.0 == n);
                if collides || self.uninit.contains(&d) || !self.on("earlier-parent-fields") {
                    self.hidden.push(n);
                } else if !self.rec_fields.iter().any(|f| f.0 == n) {
                    self.rec_fields.push((n, t, d));
                }
            }
            parents.push(c);
        }
        self.hidden.truncate(hidden_mark);
        self.rec_fields.truncate(fields_mark);
        parents
    }

    fn inherited_fields(&self, parents: &[String]) -> BTreeMap<String, (Ty, usize)> {
        let mut m = BTreeMap::new();
        for p in parents {
            if let Some(ci) = self.class(p) {
                for (k, v) in &ci.fields {
                    m.entry(k.clone()).or_insert(v.clone());
                }
            }
        }
        m
    }

    /// record body; returns own+inherited field table
    fn body(&mut self, owner: usize, mut fields: BTreeMap<String, (Ty, usize)>, allow_new_fields: bool) -> BTreeMap<String, (Ty, usize)> {
        let hidden_mark = self.hidden.len();
        for (n, (t, d)) in &fields {
            if !self.uninit.contains(d) {
                self.rec_fields.push((n.clone(), t.clone(), *d));
            } else {
                // not usable by name, and it hides every outer variable of that name
                self.hidden.push(n.clone());
            }
        }
        if self.rng.chance(1, 5) {
            self.w(";");
            self.hidden.truncate(hidden_mark);
            return fields;
        }
        self.w(" {");
        self.indent += 1;
        self.scopes.push(Vec::new());
        self.p.feat.nested_scopes = self.p.feat.nested_scopes.max(self.scopes.len());
        let k = self.rng.below(5);
        for _ in 0..k {
            self.nl();
            match self.rng.below(8) {
                0..=3 if allow_new_fields => {
                    let doc = self.doc_comment();
                    let mut ty = FIELD_TYPES[self.rng.below(FIELD_TYPES.len())]();
                    if self.rng.chance(1, 6) {
                        // widths at the edges as well: bits<1> is a type of its own, not `bit`
                        ty = Ty::Bits([8, 1, 2, 16, 1, 8][self.rng.below(6)]);
                    }
                    // class-typed fields where a def of that class exists to initialise them
                    if self.rng.chance(1, 5) && self.on("class-typed-field") {
                        let cands: Vec<String> = self.classes.iter().filter(|c| !self.defs_of_class(&c.name).is_empty()).map(|c| c.name.clone()).collect();
                        if !cands.is_empty() {
                            let c = cands[self.rng.below(cands.len())].clone();
                            ty = if self.rng.chance(1, 2) { Ty::Class(c) } else { Ty::List(Box::new(Ty::Class(c))) };
                        }
                    }
                    // now and then an inherited field is declared again, with its type (a declaration of this
                    // record: an outline entry of its own, and what the name means from here on)
                    let again: Vec<(String, Ty)> = fields
                        .iter()
                        .filter(|(_, (_, d))| self.p.decls[*d].owner != Some(owner) && !self.uninit.contains(d) && !self.p.decls[*d].overridden)
                        .map(|(n, (t, _))| (n.clone(), t.clone()))
                        .collect();
                    let redeclared = if !again.is_empty() && self.rng.chance(1, 6) && self.on("redeclared-inherited-field") { Some(again[self.rng.below(again.len())].clone()) } else { None };
                    if let Some((_, t)) = &redeclared {
                        ty = t.clone();
                    }
                    if self.rng.chance(1, 8) {
                        self.w("field ");
                    }
                    self.write_type(&ty);
                    self.w(" ");
                    // sometimes the field takes the name of a variable of an enclosing scope: inside the
                    // record the field is the innermost declaration of that name
                    let base = self.rec_base.unwrap_or(0).min(self.scopes.len());
                    let outer: Vec<String> = self.scopes[..base].iter().flatten().map(|v| v.name.clone()).filter(|n| !fields.contains_key(n) && !self.rec_targs.iter().any(|t| t.0 == *n)).collect();
                    let name = if let Some((n, _)) = &redeclared {
                        self.rec_fields.retain(|f| f.0 != *n);
                        // (a record that declares the field again answers `record.field` with its own
                        // declaration: the inherited one is no longer reached through defs)
                        if let Some((_, d0)) = fields.get(n) {
                            self.redeclared.insert(*d0);
                        }
                        n.clone()
                    } else if !outer.is_empty() && self.rng.chance(1, 6) && self.on("field-shadows-variable") {
                        self.p.feat.shadowing = true;
                        outer[self.rng.below(outer.len())].clone()
                    } else {
                        self.fresh("f")
                    };
                    let d = self.declare(DeclKind::Field, &name, Some(ty.clone()), doc, Some(owner));
                    let mut init = self.rng.chance(3, 4) || redeclared.is_some();
                    // the field is in scope in its own initialiser (where mentioning it is an error)
                    self.hidden.push(name.clone());
                    if init {
                        self.w(" = ");
                        self.wrote_unset = false;
                        let v0 = self.here();
                        self.value(&ty, 0);
                        let r = (v0, self.here());
                        init = !self.wrote_unset;
                        if init {
                            self.p.typed_sites.push((self.cur, r, ty.clone(), "field-init"));
                        }
                    }
                    self.w(";");
                    fields.insert(name.clone(), (ty.clone(), d));
                    // a field without initialiser is `?`: mentioning it in another initialiser cannot be
                    // resolved when a def is instantiated, so it is declared but not used by name
                    if init {
                        self.hidden.pop();
                        self.rec_fields.push((name, ty, d));
                    } else {
                        // stays hidden for the rest of the body
                        self.uninit.insert(d);
                    }
                }
                4 | 5 if !fields.is_empty() => {
                    // let override of an existing (own or inherited) field
                    let names: Vec<String> = fields.keys().cloned().collect();
                    let n = names[self.rng.below(names.len())].clone();
                    let (ty, d) = fields[&n].clone();
                    let ldoc = self.doc_comment();
                    self.w("let ");
                    let r = self.ident(&n, Role::Override(d));
                    self.p.decls[d].overridden = true;
                    self.p.lets.push(LetInfo { file: self.cur, name_range: r, field_ty: ty.clone(), field_name: n.clone(), owner, doc: ldoc });
                    // a bits field may be overridden a few bits at a time: `let f{3-0} = v;`, `let f{7} = b;`
                    // (the value then has the width of the selection)
                    let mut ty = ty;
                    if let Ty::Bits(w) = ty.clone() {
                        if self.rng.chance(1, 2) && self.on("bit-range-let") {
                            let width = 1 + self.rng.below(w.min(4));
                            let lo = self.rng.below(w - width + 1);
                            let hi = lo + width - 1;
                            if width == 1 {
                                self.w(&format!("{{{lo}}}"));
                                ty = Ty::Bit;
                            } else {
                                match self.rng.below(3) {
                                    0 => self.w(&format!("{{{hi}-{lo}}}")),
                                    1 => self.w(&format!("{{{hi}...{lo}}}")),
                                    _ => self.w(&format!("{{{}}}", (lo..=hi).rev().map(|b| b.to_string()).collect::<Vec<_>>().join(", "))),
                                }
                                ty = Ty::Bits(width);
                            }
                        }
                    }
                    self.w(" = ");
                    // `let f = f` is rejected by TableGen (self-assignment): hide the field itself
                    let saved = self.rec_fields.clone();
                    // … and every field declared after it (a later field may depend on it: evaluation cycle)
                    let let_mark = self.hidden.len();
                    let gone: Vec<String> = self.rec_fields.iter().filter(|f| !(f.0 != n && f.2 < d)).map(|f| f.0.clone()).collect();
                    self.hidden.extend(gone);
                    self.rec_fields.retain(|f| f.0 != n && f.2 < d);
                    let v0 = self.here();
                    self.wrote_unset = false;
                    self.value(&ty, 0);
                    let r = (v0, self.here());
                    if !self.wrote_unset {
                        self.p.typed_sites.push((self.cur, r, ty.clone(), "let-value"));
                    }
                    self.rec_fields = saved;
                    self.hidden.truncate(let_mark);
                    self.w(";");
                }
                6 => {
                    self.w("defvar ");
                    let name = self.fresh("bv");
                    let ty = Ty::Int;
                    let d = self.declare(DeclKind::Defvar, &name, Some(ty.clone()), None, None);
                    self.w(" = ");
                    // LLVM 14 does not let a body-level defvar initialiser mention fields: hide them
                    let dv_mark = self.hidden.len();
                    let gone: Vec<String> = self.rec_fields.iter().map(|f| f.0.clone()).chain(self.rec_targs.iter().map(|f| f.0.clone())).collect();
                    self.hidden.extend(gone);
                    let saved = std::mem::take(&mut self.rec_fields);
                    let saved_t = std::mem::take(&mut self.rec_targs);
                    let before = self.untyped_uses;
                    self.value(&ty, 1);
                    self.hidden.truncate(dv_mark);
                    if self.untyped_uses != before {
                        self.p.decls[d].ty = None;
                        self.tainted.insert(d);
                    }
                    self.rec_fields = saved;
                    self.rec_targs = saved_t;
                    self.w(";");
                    self.scopes.last_mut().unwrap().push(Var { name, ty, decl: d });
                }
                _ => {
                    self.w("assert ");
                    self.value(&Ty::Bit, 1);
                    self.w(", \"msg\";");
                }
            }
        }
        let popped = self.scopes.pop().unwrap();
        for v in popped {
            self.dead.push((v.name, v.decl));
        }
        self.indent -= 1;
        self.nl();
        self.w("}");
        self.hidden.truncate(hidden_mark);
        fields
    }

    fn stmt_begin(&mut self) -> usize {
        self.here()
    }
    fn stmt_end(&mut self, kind: &'static str, start: usize, decl: Option<usize>, top_level: bool, in_defset: Option<usize>) {
        let end = self.here();
        let optional = decl.map(|d| self.p.decls[d].pasted).unwrap_or(false) || (kind == "Def" && self.mc_depth > 0);
        self.p.stmts.push(StmtInfo { file: self.cur, kind, range: (start, end), in_defset, top_level, decl, optional });
    }

    fn class_stmt(&mut self) {
        // a header may declare a class that the root defines (`class K;` there, `class K<…> {…}` here):
        // two declarations in two files
        if self.cur != 0 && self.rng.chance(1, 8) && self.on("forward-declared-in-header") {
            let name = self.fresh("K");
            let doc = self.doc_comment();
            let start = self.stmt_begin();
            self.w("class ");
            let fwd = self.declare(DeclKind::Class, &name, None, doc, None);
            self.w(";");
            self.stmt_end("Class", start, Some(fwd), true, None);
            self.pending_fwd.push(name);
            return;
        }
        let from_header = if self.cur == 0 && !self.pending_fwd.is_empty() && self.rng.chance(1, 2) { self.pending_fwd.pop() } else { None };
        let name = match from_header {
            Some(n) => n,
            None => self.fresh("K"),
        };
        // a forward declaration first (`class K;` / `class K {}`): a declaration of its own, with its own
        // outline entry; every use of the name that follows the definition means the definition
        if self.rng.chance(1, 6) && self.on("forward-declared-class") {
            let doc = self.doc_comment();
            let start = self.stmt_begin();
            self.w("class ");
            let fwd = self.declare(DeclKind::Class, &name, None, doc, None);
            let tail = if self.rng.chance(2, 3) { ";" } else { " {}" };
            self.w(tail);
            self.stmt_end("Class", start, Some(fwd), true, None);
            self.nl();
        }
        let doc = self.doc_comment();
        let start = self.stmt_begin();
        self.w("class ");
        let decl = self.declare(DeclKind::Class, &name, None, doc, None);
        // the class is registered (without fields yet) so that its own body may mention it in types
        self.rec_targs.clear();
        self.rec_fields.clear();
        let saved_base = self.rec_base.replace(self.scopes.len());
        let targs = self.template_args(decl);
        let parents = self.parent_list();
        let inherited = self.inherited_fields(&parents);
        let fields = self.body(decl, inherited, true);
        for t in &targs {
            self.dead.push((t.0.clone(), t.3));
        }
        self.rec_targs.clear();
        self.rec_fields.clear();
        self.rec_base = saved_base;
        self.classes.push(ClassInfo { decl, name, targs, fields, parents });
        self.stmt_end("Class", start, Some(decl), true, None);
    }

    fn def_stmt(&mut self, name_prefix: &str, in_multiclass: bool) {
        if self.classes.is_empty() {
            self.w("def ");
            let name = self.fresh("lonely");
            let start = self.here() - 4;
            let decl = self.declare(DeclKind::Def, &name, None, None, None);
            let pasted = self.paste_suffix(decl);
            self.w(";");
            if !pasted {
                self.defs.push(DefInfo { decl, name, class: None, via_defm: false });
            }
            let top = self.depth == 0;
            let ds = self.in_defset;
            self.stmt_end("Def", start, Some(decl), top, ds);
            return;
        }
        let doc = if in_multiclass { None } else { self.doc_comment() };
        let start = self.stmt_begin();
        self.w("def ");
        // now and then a name that looks like something else: like the names given to records that have
        // none (`anonymous_<n>`; far above the number of such records in a program), like a keyword
        let stem = if name_prefix.is_empty() && self.counter > 60 && self.rng.chance(1, 10) && self.on("peculiar-def-names") {
            ["anonymous_", "anonymous", "Anonymous_", "defset", "include_", "field", "multiclass_", "let"][self.rng.below(8)]
        } else {
            "d"
        };
        let name = format!("{name_prefix}{}", self.fresh(stem));
        let decl = self.declare(DeclKind::Def, &name, None, doc, None);
        let pasted = self.paste_suffix(decl);
        let saved_t = std::mem::take(&mut self.rec_targs);
        let saved_f = std::mem::take(&mut self.rec_fields);
        let mc_targs = saved_t.clone();
        // multiclass template arguments stay visible inside the def
        if in_multiclass {
            self.rec_targs = mc_targs;
        }
        let saved_base = self.rec_base.replace(self.scopes.len());
        let parents = self.parent_list();
        let inherited = self.inherited_fields(&parents);
        let new_fields = self.rng.chance(1, 3);
        let _ = self.body(decl, inherited, new_fields);
        self.rec_base = saved_base;
        self.rec_targs = saved_t;
        self.rec_fields = saved_f;
        if in_multiclass && !pasted {
            self.mc_records.push((name.clone(), parents.first().cloned()));
        }
        if pasted && !in_multiclass && self.cond_depth == 0 && self.in_defset.is_none() && self.loop_vars.len() == 1 {
            if let (Some(Some(vals)), Some(c)) = (self.loop_values.last().cloned(), parents.first().cloned()) {
                self.loop_defs.push((name.clone(), decl, c, vals));
            }
        }
        if !in_multiclass && !pasted {
            self.defs.push(DefInfo { decl, name, class: parents.first().cloned(), via_defm: false });
        }
        let top = self.depth == 0;
        let ds = self.in_defset;
        self.stmt_end("Def", start, Some(decl), top && !in_multiclass, ds);
    }

    /// `def : K<args>;` - a record without a name (no declaration, no outline entry; a foldable statement)
    fn anon_def_stmt(&mut self) {
        if self.classes.is_empty() || !self.on("anonymous-def") {
            return self.def_stmt("", false);
        }
        let start = self.stmt_begin();
        self.w("def");
        let saved_base = self.rec_base.replace(self.scopes.len());
        let saved_t = std::mem::take(&mut self.rec_targs);
        let saved_f = std::mem::take(&mut self.rec_fields);
        let mut parents = self.parent_list();
        if parents.is_empty() {
            let c = self.classes[self.rng.below(self.classes.len())].name.clone();
            self.w(" : ");
            self.class_ref(&c, 1, false);
            parents.push(c);
        }
        self.rec_targs = saved_t;
        self.rec_fields = saved_f;
        self.rec_base = saved_base;
        self.w(";");
        let top = self.depth == 0;
        let ds = self.in_defset;
        self.stmt_end("Def", start, None, top, ds);
    }

    fn defvar_stmt(&mut self) {
        let any: Vec<(String, usize)> = self.defs.iter().filter(|d| !self.name_is_local(&d.name)).map(|d| (d.name.clone(), d.decl)).collect();
        if any.len() >= 2 && self.rng.chance(1, 8) && self.on("records-of-any-class") {
            // records need no class in common to stand in one list, or in the branches of an !if: the
            // value is a record of no class in particular (the variable is not used again)
            self.w("defvar ");
            let name = self.fresh("v");
            let d = self.declare(DeclKind::Defvar, &name, None, None, None);
            self.tainted.insert(d);
            self.w(" = ");
            let st = self.here();
            let i = self.rng.below(any.len());
            let j = (i + 1 + self.rng.below(any.len() - 1)) % any.len();
            if self.rng.chance(1, 2) {
                self.p.feat.bang_ops += 1;
                self.w("!if(");
                self.value(&Ty::Bit, 1);
                self.w(", ");
                self.ident(&any[i].0, Role::Use(any[i].1));
                self.w(", ");
                self.ident(&any[j].0, Role::Use(any[j].1));
                let close = self.here();
                self.w(")");
                self.p.bang_sites.push((self.cur, "!if".to_string(), close, 3, st));
            } else {
                self.w("[");
                self.ident(&any[i].0, Role::Use(any[i].1));
                self.w(", ");
                self.ident(&any[j].0, Role::Use(any[j].1));
                if self.rng.chance(1, 2) {
                    let k = self.rng.below(any.len());
                    self.w(", ");
                    self.ident(&any[k].0, Role::Use(any[k].1));
                }
                self.w("]");
            }
            self.span("records-of-any-class", st);
            self.w(";");
            return;
        }
        self.w("defvar ");
        let shadow = self.rng.chance(1, 6) && self.scopes.len() > 1;
        let name = if shadow {
            let cur_names: Vec<String> = self.scopes.last().unwrap().iter().map(|v| v.name.clone()).collect();
            // (not an iterator of an enclosing foreach: it is pasted into the names of the defs in the loop,
            // where a shadowing list or string would change what the record is called - or be an error)
            match self.scopes[..self.scopes.len() - 1].iter().flatten().filter(|v| !cur_names.contains(&v.name) && !self.loop_vars.contains(&v.name)).last() {
                Some(v) => {
                    self.p.feat.shadowing = true;
                    v.name.clone()
                }
                None => self.fresh("v"),
            }
        } else {
            self.fresh("v")
        };
        let ty = match self.rng.below(4) {
            0 => Ty::Str,
            1 => Ty::List(Box::new(Ty::Int)),
            _ => Ty::Int,
        };
        let d = self.declare(DeclKind::Defvar, &name, Some(ty.clone()), None, None);
        self.w(" = ");
        let before = self.untyped_uses;
        self.value(&ty, 0);
        if self.untyped_uses != before {
            // the initialiser contains a value the indexer cannot type: the hover type is not asserted
            self.p.decls[d].ty = None;
            self.tainted.insert(d);
        }
        self.w(";");
        self.scopes.last_mut().unwrap().push(Var { name, ty, decl: d });
    }

    fn block<F: FnMut(&mut Self)>(&mut self, mut inner: F, opens_scope: bool) {
        self.w("{");
        self.indent += 1;
        self.depth += 1;
        if opens_scope {
            self.scopes.push(Vec::new());
            self.p.feat.nested_scopes = self.p.feat.nested_scopes.max(self.scopes.len());
        }
        let k = 1 + self.rng.below(3);
        for _ in 0..k {
            self.nl();
            inner(self);
        }
        if opens_scope {
            let popped = self.scopes.pop().unwrap();
            for v in popped {
                self.dead.push((v.name, v.decl));
            }
        }
        self.depth -= 1;
        self.indent -= 1;
        self.nl();
        self.w("}");
    }

    fn inner_statement(&mut self) {
        // statements allowed inside foreach / if / let / defset blocks
        let deep = self.depth >= 3;
        match self.rng.below(if deep { 4 } else { 9 }) {
            0 | 1 => self.def_stmt("", false),
            2 => {
                if self.rng.chance(1, 3) && self.in_defset.is_none() {
                    self.anon_def_stmt()
                } else {
                    self.def_stmt("", false)
                }
            }
            3 => self.defvar_stmt(),
            4 => self.foreach_stmt(),
            5 => self.if_stmt(),
            6 => self.let_stmt(),
            7 => {
                self.w("assert ");
                self.value(&Ty::Bit, 1);
                self.w(", \"m\";");
            }
            _ => {
                self.w("dump ");
                self.value(&Ty::Str, 1);
                self.w(";");
            }
        }
        self.maybe_probe();
    }

    fn foreach_stmt(&mut self) {
        self.p.feat.nesting_constructs += 1;
        let start = self.stmt_begin();
        // sometimes: iterate over defs of a class and read their fields through the iterator
        let over_defs: Vec<(String, Vec<(String, usize)>)> = self
            .classes
            .iter()
            .map(|c| (c.name.clone(), self.defs_of_class(&c.name).into_iter().filter(|(n, _)| !self.defs.iter().any(|d| d.via_defm && d.name == *n)).collect::<Vec<_>>()))
            .filter(|(c, ds)| ds.len() >= 2 && self.class(c).map(|ci| ci.fields.values().any(|(t, fd)| *t == Ty::Int && !self.p.decls[*fd].overridden && !self.uninit.contains(fd) && !self.redeclared.contains(fd))).unwrap_or(false))
            .collect();
        if !over_defs.is_empty() && self.rng.chance(1, 4) && self.on("foreach-over-defs") {
            let (c, ds) = over_defs[self.rng.below(over_defs.len())].clone();
            let st = self.here();
            self.w("foreach ");
            let name = self.fresh("r");
            let ty = Ty::Class(c.clone());
            // (no declared type to show: the iterator's type is whatever the elements are)
            let d = self.declare(DeclKind::ForeachVar, &name, None, None, None);
            self.w(" = [");
            self.ident(&ds[0].0, Role::Use(ds[0].1));
            self.w(", ");
            self.ident(&ds[1].0, Role::Use(ds[1].1));
            self.w("] in {");
            self.indent += 1;
            self.depth += 1;
            self.scopes.push(vec![Var { name: name.clone(), ty, decl: d }]);
            self.p.feat.nested_scopes = self.p.feat.nested_scopes.max(self.scopes.len());
            for _ in 0..1 + self.rng.below(2) {
                self.nl();
                self.w("defvar ");
                let vn = self.fresh("v");
                let vd = self.declare(DeclKind::Defvar, &vn, Some(Ty::Int), None, None);
                self.w(" = ");
                self.w("!add(");
                self.field_access(&Ty::Int, 1);
                self.w(", 1);");
                self.scopes.last_mut().unwrap().push(Var { name: vn, ty: Ty::Int, decl: vd });
            }
            let popped = self.scopes.pop().unwrap();
            for v in popped {
                self.dead.push((v.name, v.decl));
            }
            self.depth -= 1;
            self.indent -= 1;
            self.nl();
            self.w("}");
            self.span("foreach-over-defs", st);
            let top = self.depth == 0;
            let ds2 = self.in_defset;
            self.stmt_end("Foreach", start, None, top, ds2);
            return;
        }
        self.w("foreach ");
        let name = self.fresh("i");
        let d = self.declare(DeclKind::ForeachVar, &name, Some(Ty::Int), None, None);
        self.w(" = ");
        let mut values: Option<Vec<i64>> = None;
        match self.rng.below(4) {
            0 => {
                self.w("[1, 2, 3]");
                values = Some(vec![1, 2, 3]);
            }
            1 => {
                self.w("0...3");
                values = Some(vec![0, 1, 2, 3]);
            }
            2 => {
                self.w("{0-2, 5}");
                values = Some(vec![0, 1, 2, 5]);
            }
            _ => {
                // a one-element list keeps the pasted def names distinct whatever the value is
                self.w("[");
                let before = self.untyped_uses;
                self.value(&Ty::Int, 1);
                if self.untyped_uses != before {
                    self.p.decls[d].ty = None;
                    self.tainted.insert(d);
                }
                self.w("]");
            }
        }
        self.w(" in ");
        self.scopes.push(vec![Var { name: name.clone(), ty: Ty::Int, decl: d }]);
        self.loop_vars.push(name.clone());
        self.loop_values.push(values);
        self.p.feat.nested_scopes = self.p.feat.nested_scopes.max(self.scopes.len());
        let top = self.depth == 0;
        let ds = self.in_defset;
        if self.rng.chance(1, 3) {
            self.depth += 1;
            self.def_stmt("", false);
            self.depth -= 1;
        } else {
            self.block(|s| s.inner_statement(), false);
        }
        self.loop_vars.pop();
        self.loop_values.pop();
        if self.loop_vars.is_empty() {
            // the loop is over: the records it has defined, `d_1`, `d_2`, …, are values from here on
            for (prefix, decl, class, vals) in std::mem::take(&mut self.loop_defs) {
                if self.on("foreach-defined-record-value") {
                    for v in vals {
                        self.defs.push(DefInfo { decl, name: format!("{prefix}_{v}"), class: Some(class.clone()), via_defm: true });
                    }
                }
            }
        }
        let popped = self.scopes.pop().unwrap();
        for v in popped {
            self.dead.push((v.name, v.decl));
        }
        self.stmt_end("Foreach", start, None, top, ds);
    }

    fn if_stmt(&mut self) {
        self.p.feat.nesting_constructs += 1;
        let start = self.stmt_begin();
        self.w("if ");
        self.value(&Ty::Bit, 1);
        self.w(" then ");
        let top = self.depth == 0;
        let ds = self.in_defset;
        self.cond_depth += 1;
        self.if_body();
        if self.rng.chance(1, 2) {
            self.w(" else ");
            self.if_body();
        }
        self.cond_depth -= 1;
        self.stmt_end("If", start, None, top, ds);
    }

    /// a branch of an `if`: a block, or - without braces - one statement; a scope of its own either way
    fn if_body(&mut self) {
        if !(self.rng.chance(1, 5) && self.on("unbraced-if-body")) {
            return self.block(|s| s.inner_statement(), true);
        }
        self.depth += 1;
        self.scopes.push(Vec::new());
        self.p.feat.nested_scopes = self.p.feat.nested_scopes.max(self.scopes.len());
        if self.rng.chance(1, 2) {
            self.defvar_stmt();
        } else {
            self.def_stmt("", false);
        }
        let popped = self.scopes.pop().unwrap();
        for v in popped {
            self.dead.push((v.name, v.decl));
        }
        self.depth -= 1;
    }

    fn let_stmt(&mut self) {
        self.p.feat.nesting_constructs += 1;
        let start = self.stmt_begin();
        let top = self.depth == 0;
        let ds = self.in_defset;
        // a top-level let only names a field that every record in its block has: pick a class with
        // an int/string field and restrict the block to defs of that class
        let cand: Vec<(String, String, Ty)> = self
            .classes
            .iter()
            .flat_map(|c| c.fields.iter().filter(|(_, (t, _))| matches!(t, Ty::Int | Ty::Str)).map(|(n, (t, _))| (c.name.clone(), n.clone(), t.clone())))
            .collect();
        if cand.is_empty() {
            self.def_stmt("", false);
            return;
        }
        let (cname, fname, fty) = cand[self.rng.below(cand.len())].clone();
        self.w("let ");
        // the name in a top-level let is not indexed as a reference (LetItem indexes only its value)
        self.w(&fname);
        self.w(" = ");
        self.value(&fty, 1);
        // a second item for another field of the same class, now and then
        let more: Vec<(String, Ty)> = cand.iter().filter(|c| c.0 == cname && c.1 != fname).map(|c| (c.1.clone(), c.2.clone())).collect();
        if !more.is_empty() && self.rng.chance(1, 4) && self.on("let-list") {
            let (f2, t2) = more[self.rng.below(more.len())].clone();
            self.w(", ");
            self.w(&f2);
            self.w(" = ");
            self.value(&t2, 1);
        }
        self.w(" in ");
        // without braces the body is one statement (still a scope of its own)
        let braced = !(self.rng.chance(1, 5) && self.on("unbraced-let-body"));
        if braced {
            self.w("{");
        }
        self.indent += 1;
        self.depth += 1;
        self.scopes.push(Vec::new());
        let lone_defvar = !braced && self.rng.chance(1, 6);
        let k = if lone_defvar { 0 } else if braced { 1 + self.rng.below(2) } else { 1 };
        if lone_defvar {
            self.defvar_stmt();
        }
        for _ in 0..k {
            if braced {
                self.nl();
            }
            let s2 = self.stmt_begin();
            self.w("def ");
            let name = self.fresh("ld");
            let decl = self.declare(DeclKind::Def, &name, None, None, None);
            let pasted = self.paste_suffix(decl);
            self.w(" : ");
            self.class_ref(&cname, 1, false);
            self.w(";");
            if !pasted {
                self.defs.push(DefInfo { decl, name, class: Some(cname.clone()), via_defm: false });
            }
            self.stmt_end("Def", s2, Some(decl), false, ds);
        }
        if braced && self.rng.chance(1, 3) {
            self.nl();
            self.defvar_stmt();
        }
        let popped = self.scopes.pop().unwrap();
        for v in popped {
            self.dead.push((v.name, v.decl));
        }
        self.depth -= 1;
        self.indent -= 1;
        if braced {
            self.nl();
            self.w("}");
        }
        self.stmt_end("Let", start, None, top, ds);
    }

    fn defset_stmt(&mut self) {
        if self.classes.is_empty() {
            return self.class_stmt();
        }
        self.p.feat.has_defset = true;
        self.p.feat.nesting_constructs += 1;
        let doc = self.doc_comment();
        let start = self.stmt_begin();
        let c = self.classes[self.rng.below(self.classes.len())].name.clone();
        let cdecl = self.class(&c).unwrap().decl;
        self.w("defset list<");
        self.ident(&c, Role::Use(cdecl));
        self.w("> ");
        let name = self.fresh("S");
        let ty = Ty::List(Box::new(Ty::Class(c.clone())));
        let decl = self.declare(DeclKind::Defset, &name, Some(ty.clone()), doc, None);
        self.w(" = {");
        self.indent += 1;
        self.depth += 1;
        let saved = self.in_defset.replace(decl);
        let k = 1 + self.rng.below(3);
        for _ in 0..k {
            self.nl();
            match self.rng.below(10) {
                // a defset inside the defset (its defs are members of the inner one; the inner defset is
                // a declaration of the file like any other)
                0 | 1 if saved.is_none() && self.on("nested-defset") => {
                    let s3 = self.stmt_begin();
                    self.w("defset list<");
                    self.ident(&c, Role::Use(cdecl));
                    self.w("> ");
                    let iname = self.fresh("S");
                    let idecl = self.declare(DeclKind::Defset, &iname, Some(ty.clone()), None, None);
                    self.w(" = {");
                    self.indent += 1;
                    self.depth += 1;
                    self.in_defset = Some(idecl);
                    for _ in 0..1 + self.rng.below(2) {
                        self.nl();
                        self.defset_member_def(&c, idecl);
                    }
                    self.in_defset = Some(decl);
                    self.depth -= 1;
                    self.indent -= 1;
                    self.nl();
                    self.w("}");
                    self.scopes[0].push(Var { name: iname, ty: ty.clone(), decl: idecl });
                    self.stmt_end("Defset", s3, Some(idecl), false, None);
                }
                // a def in a block inside the defset is still a member of the defset
                2 if self.on("defset-block") => {
                    let s3 = self.stmt_begin();
                    self.w("if true then {");
                    self.indent += 1;
                    self.depth += 1;
                    self.nl();
                    self.defset_member_def(&c, decl);
                    self.depth -= 1;
                    self.indent -= 1;
                    self.nl();
                    self.w("}");
                    self.stmt_end("If", s3, None, false, Some(decl));
                }
                _ => self.defset_member_def(&c, decl),
            }
        }
        self.in_defset = saved;
        self.depth -= 1;
        self.indent -= 1;
        self.nl();
        self.w("}");
        // a defset does not close a variable scope, and its name is a global of list type
        self.scopes[0].push(Var { name, ty, decl });
        self.stmt_end("Defset", start, Some(decl), true, None);
    }

    fn defset_member_def(&mut self, c: &str, defset: usize) {
        let s2 = self.stmt_begin();
        self.w("def ");
        let dn = self.fresh("sd");
        let dd = self.declare(DeclKind::Def, &dn, None, None, None);
        self.w(" : ");
        self.class_ref(c, 1, false);
        self.w(";");
        self.defs.push(DefInfo { decl: dd, name: dn, class: Some(c.to_string()), via_defm: false });
        self.stmt_end("Def", s2, Some(dd), false, Some(defset));
    }

    fn multiclass_stmt(&mut self) {
        if self.classes.is_empty() {
            return self.class_stmt();
        }
        self.p.feat.has_multiclass = true;
        self.p.feat.nesting_constructs += 1;
        let doc = self.doc_comment();
        let start = self.stmt_begin();
        self.w("multiclass ");
        let name = self.fresh("M");
        let decl = self.declare(DeclKind::Multiclass, &name, None, doc, None);
        self.rec_targs.clear();
        self.rec_fields.clear();
        let targs = self.template_args(decl);
        if targs.is_empty() {
            self.p.feat.multiclass_without_targs = true;
        }
        // parent multiclasses
        let mut records: Vec<(String, Option<String>)> = Vec::new();
        let saved_mc_records = std::mem::take(&mut self.mc_records);
        if !self.mcs.is_empty() && self.rng.chance(1, 3) && self.on("multiclass-parent") {
            let m = self.mcs[self.rng.below(self.mcs.len())].clone();
            self.w(" : ");
            let st = self.here();
            self.mc_ref(&m);
            self.span("multiclass-parent", st);
            records = m.records.clone();
        }
        self.w(" {");
        self.indent += 1;
        self.depth += 1;
        self.mc_depth += 1;
        self.scopes.push(Vec::new());
        self.p.feat.nested_scopes = self.p.feat.nested_scopes.max(self.scopes.len());
        let k = 1 + self.rng.below(3);
        for _ in 0..k {
            self.nl();
            match self.rng.below(6) {
                0 => self.defvar_stmt(),
                4 if !records.iter().any(|r| r.0.is_empty()) && self.rng.chance(1, 2) && self.on("defm-record-value") => {
                    // `def "" : K<…>;` - the record is called like the defm that instantiates the multiclass
                    let start = self.stmt_begin();
                    let c = self.classes[self.rng.below(self.classes.len())].name.clone();
                    self.w("def \"\" : ");
                    self.class_ref(&c, 1, false);
                    self.w(";");
                    let ds = self.in_defset;
                    self.stmt_end("Def", start, None, false, ds);
                    records.push((String::new(), Some(c)));
                }
                5 if self.on("def-name-paste") => {
                    // a record named after the defm that instantiates the multiclass: no name of its own
                    let start = self.stmt_begin();
                    let tail = self.fresh("p");
                    self.w(&format!("def NAME#\"_{tail}\";"));
                    records.push((format!("_{tail}"), None));
                    let ds = self.in_defset;
                    self.stmt_end("Def", start, None, false, ds);
                }
                2 if targs.iter().all(|t| t.2) && self.rng.chance(1, 2) && self.on("self-instantiating-multiclass") => {
                    // the multiclass instantiates what has been defined of itself so far
                    let mut so_far = records.clone();
                    so_far.extend(self.mc_records.iter().cloned());
                    let m = McInfo { decl, name: name.clone(), targs: targs.clone(), records: so_far };
                    self.w("defm ");
                    let dn = format!("_{}", self.fresh("m"));
                    self.declare(DeclKind::Defm, &dn, None, None, None);
                    self.w(" : ");
                    self.mc_ref(&m);
                    self.w(";");
                    for (rn, rc) in &m.records {
                        records.push((format!("{dn}{rn}"), rc.clone()));
                    }
                }
                1 if !self.mcs.is_empty() => {
                    let m = self.mcs[self.rng.below(self.mcs.len())].clone();
                    self.w("defm ");
                    let dn = format!("_{}", self.fresh("m"));
                    self.declare(DeclKind::Defm, &dn, None, None, None);
                    self.w(" : ");
                    self.mc_ref(&m);
                    self.w(";");
                    // (a record called like the instantiating defm may be defined once only)
                    for (rn, rc) in &m.records {
                        records.push((format!("{dn}{rn}"), rc.clone()));
                    }
                }
                _ => self.def_stmt("_", true),
            }
        }
        let popped = self.scopes.pop().unwrap();
        for v in popped {
            self.dead.push((v.name, v.decl));
        }
        for t in &targs {
            self.dead.push((t.0.clone(), t.3));
        }
        self.rec_targs.clear();
        self.mc_depth -= 1;
        self.depth -= 1;
        self.indent -= 1;
        self.nl();
        self.w("}");
        records.extend(std::mem::replace(&mut self.mc_records, saved_mc_records));
        self.mcs.push(McInfo { decl, name, targs, records });
        self.stmt_end("MultiClass", start, Some(decl), true, None);
    }

    fn mc_ref(&mut self, m: &McInfo) {
        let name_range = self.ident(&m.name, Role::Use(m.decl));
        let required = m.targs.iter().take_while(|t| !t.2).count();
        let npos = if m.targs.is_empty() { 0 } else { required + self.rng.below(m.targs.len() - required + 1) };
        let mut positional = Vec::new();
        let mut ar = None;
        if npos > 0 {
            let a0 = self.here();
            self.w("<");
            for i in 0..npos {
                if i > 0 {
                    self.w(", ");
                }
                positional.push((self.here(), m.targs[i].0.clone()));
                let t = m.targs[i].1.clone();
                let v0 = self.here();
                self.value(&t, 2);
                let r = (v0, self.here());
                self.p.typed_sites.push((self.cur, r, t, "template-arg"));
            }
            self.w(">");
            ar = Some((a0, self.here()));
        }
        self.p.classrefs.push(ClassRefInfo { file: self.cur, name_range, class_decl: m.decl, positional, is_multiclass: true, args_range: ar, required, params: m.targs.len(), first_named: None });
    }

    fn defm_stmt(&mut self) {
        if self.mcs.is_empty() {
            return self.multiclass_stmt();
        }
        let m = self.mcs[self.rng.below(self.mcs.len())].clone();
        // after the multiclasses a defm may name classes: its records inherit from them too. A class made
        // for the purpose, without parents (a record must not reach a class twice)
        let extra = if self.rng.chance(1, 4) && self.on("defm-class-parent") {
            self.class_stmt();
            self.nl();
            self.classes.last().cloned().filter(|c| c.parents.is_empty())
        } else {
            None
        };
        let doc = if self.on("defm-doc-comment") { self.doc_comment() } else { None };
        self.w("defm ");
        let dn = self.fresh("DM");
        let defm_decl = self.declare(DeclKind::Defm, &dn, None, doc, None);
        self.w(" : ");
        self.mc_ref(&m);
        let mut second: Option<McInfo> = None;
        if self.mcs.len() >= 2 && self.rng.chance(1, 3) {
            let m2 = self.mcs[self.rng.below(self.mcs.len())].clone();
            // (two multiclasses that both define a record called like the defm would define it twice)
            if m2.name != m.name && !m2.records.iter().any(|r| m.records.iter().any(|q| q.0 == r.0)) {
                self.w(", ");
                self.mc_ref(&m2);
                second = Some(m2);
            }
        }
        if let Some(c) = extra {
            self.w(", ");
            let st = self.here();
            self.class_ref(&c.name, 1, false);
            self.span("defm-class-parent", st);
        }
        // from here on the records the defm has defined are values: its name followed by what each is
        // called in the multiclass (`defm SLL : M` with `def I : K` in M defines SLLI, a K)
        if self.on("defm-record-value") {
            for (rn, rc) in m.records.iter().chain(second.iter().flat_map(|x| x.records.iter())) {
                if let Some(c) = rc {
                    self.defs.push(DefInfo { decl: defm_decl, name: format!("{dn}{rn}"), class: Some(c.clone()), via_defm: true });
                }
            }
        }
        self.w(";");
    }

    /// a use of a name whose construct has ended (C05's negative direction)
    fn maybe_probe(&mut self) {
        if self.opts != Opts::WithProbes || self.dead.is_empty() || !self.rng.chance(1, 4) {
            return;
        }
        let (name, d) = self.dead[self.rng.below(self.dead.len())].clone();
        // only if nothing of that name is visible now
        if self.name_is_local(&name) || self.defs.iter().any(|x| x.name == name) {
            return;
        }
        if self.p.decls[d].file != self.cur {
            return;
        }
        self.nl();
        self.w("defvar ");
        let pn = self.fresh("probe");
        // the probe's own variable is never used again; it is still a well-formed declaration
        self.w(&pn);
        self.w(" = ");
        self.ident(&name, Role::UseAfterScope(d));
        self.w(";");
        self.p.feat.after_scope_probes += 1;
    }

    fn top_statement(&mut self) {
        match self.rng.weighted(&[6, 6, 2, 2, 2, 2, 2, 2, 2, 1, 1]) {
            0 => self.class_stmt(),
            1 => {
                if self.rng.chance(1, 8) {
                    self.anon_def_stmt()
                } else {
                    self.def_stmt("", false)
                }
            }
            2 => self.defvar_stmt(),
            3 => self.foreach_stmt(),
            4 => self.if_stmt(),
            5 => self.let_stmt(),
            6 => self.defset_stmt(),
            7 => self.multiclass_stmt(),
            8 => self.defm_stmt(),
            9 => {
                self.w("assert ");
                self.value(&Ty::Bit, 1);
                self.w(", \"top\";");
            }
            _ => {
                self.w("dump ");
                self.value(&Ty::Str, 1);
                self.w(";");
            }
        }
        self.maybe_probe();
        self.nl();
    }

    /// Generates a program: 0..2 header files (included first, in order) and the root.
    pub fn generate(mut self, statements: usize) -> Program {
        let headers = self.rng.below(3);
        // now and then the headers live in a subdirectory: the root names them with the directory, a
        // header names its sibling without (includes resolve relative to the including file)
        let subdir = self.rng.chance(1, 4) && self.on("headers-in-subdirectory");
        for h in 0..headers {
            let name = if subdir { format!("sub/h{h}.td") } else { format!("h{h}.td") };
            self.p.files.push((name.clone(), String::new()));
            self.cur = 0;
            // a variable of the root declared in front of the include: the header sees it (an include is textual)
            if self.rng.chance(1, 4) && self.on("defvar-across-include") {
                self.defvar_stmt();
                self.w("\n");
            }
            self.w(&format!("include \"{name}\"\n"));
            self.cur = h + 1;
            // include guard (so that the diamond below is valid TableGen)
            self.w(&format!("#ifndef H{h}_TD\n#define H{h}_TD\n"));
            if self.rng.chance(1, 2) {
                // a blank line keeps the banner from being the first declaration's doc comment
                self.w(&format!("// header {h}\n\n"));
            }
            let k = 1 + self.rng.below(3);
            for _ in 0..k {
                match self.rng.below(5) {
                    0 | 1 => self.class_stmt(),
                    2 => self.def_stmt("", false),
                    // a variable of a header: global from here on, in every file
                    3 if self.on("defvar-across-include") => self.defvar_stmt(),
                    _ => self.multiclass_stmt(),
                }
                self.nl();
            }
            // a later header includes the first one again (a diamond: root -> h0, root -> h1 -> h0)
            if h >= 1 && self.rng.chance(1, 2) {
                self.w("include \"h0.td\"\n");
                self.p.feat.cross_file_use = true;
            }
            self.w("#endif\n");
            // variables of a header stay global; nothing to pop
        }
        self.cur = 0;
        if self.rng.chance(1, 3) {
            self.w("// root file\n\n");
        }
        for _ in 0..statements {
            self.top_statement();
        }
        self.p
    }
}

pub fn program(rng: &mut Rng, opts: Opts) -> Program {
    let n = 3 + rng.below(8);
    Sem::new(rng, opts).generate(n)
}

/// Deterministic program from (seed, number of top-level statements): fewer statements give a
/// prefix of the same program, which is what the shrinker exploits.
pub fn program_from(seed: u64, statements: usize, opts: Opts) -> Program {
    let mut rng = Rng::new(seed ^ 0x5E11);
    Sem::new(&mut rng, opts).generate(statements)
}

impl Program {
    /// The same program with CRLF line ends; every recorded offset is remapped.
    pub fn to_crlf(&self) -> Program {
        let mut p = self.clone();
        // per file: number of '\n' strictly before each byte offset
        let tables: Vec<Vec<usize>> = self
            .files
            .iter()
            .map(|(_, t)| {
                let mut v = Vec::with_capacity(t.len() + 1);
                let mut n = 0;
                for b in t.bytes() {
                    v.push(n);
                    if b == b'\n' {
                        n += 1;
                    }
                }
                v.push(n);
                v
            })
            .collect();
        let m = |f: usize, o: usize| o + tables[f][o.min(tables[f].len() - 1)];
        let mr = |f: usize, r: (usize, usize)| (m(f, r.0), m(f, r.1));
        for (i, (_, t)) in p.files.iter_mut().enumerate() {
            let _ = i;
            *t = t.replace('\n', "\r\n");
        }
        for d in p.decls.iter_mut() {
            d.range = mr(d.file, d.range);
        }
        for o in p.occs.iter_mut() {
            o.range = mr(o.file, o.range);
        }
        for s in p.stmts.iter_mut() {
            s.range = mr(s.file, s.range);
        }
        for c in p.classrefs.iter_mut() {
            c.name_range = mr(c.file, c.name_range);
            c.args_range = c.args_range.map(|r| mr(c.file, r));
            for a in c.positional.iter_mut() {
                a.0 = m(c.file, a.0);
            }
            c.first_named = c.first_named.map(|o| m(c.file, o));
        }
        for l in p.lets.iter_mut() {
            l.name_range = mr(l.file, l.name_range);
        }
        for s in p.spans.iter_mut() {
            s.1 = mr(s.0, s.1);
        }
        for t in p.typed_sites.iter_mut() {
            t.1 = mr(t.0, t.1);
        }
        for b in p.bang_sites.iter_mut() {
            b.2 = m(b.0, b.2);
            b.4 = m(b.0, b.4);
        }
        p
    }
}
