//! TOK — token-class alphabet: one concrete lexeme per class, including "error makers".

pub const KEYWORDS: [&str; 25] = [
    "assert", "bit", "bits", "class", "code", "dag", "def", "defm", "defset", "defvar", "dump", "else", "field",
    "foreach", "if", "in", "include", "int", "let", "list", "multiclass", "string", "then", "true", "false",
];

pub const PUNCT: [&str; 18] =
    ["-", "+", "[", "]", "{", "}", "(", ")", "<", ">", ":", ";", ",", ".", "=", "?", "#", "..."];

/// The bang operators of the TableGen Programmer's Reference (LLVM 19 list) — spelling after `!`.
pub const REF_BANG_OPERATORS: [&str; 52] = [
    "add", "and", "cast", "con", "cond", "dag", "div", "empty", "eq", "exists", "filter", "find", "foldl",
    "foreach", "ge", "getdagarg", "getdagname", "getdagop", "gt", "head", "if", "initialized", "interleave",
    "isa", "le", "listconcat", "listflatten", "listremove", "listsplat", "logtwo", "lt", "mul", "ne", "not",
    "or", "range", "repr", "setdagarg", "setdagname", "setdagop", "shl", "size", "sra", "srl", "strconcat",
    "sub", "subst", "substr", "tail", "tolower", "toupper", "xor",
];

/// (class name, lexeme). Whitespace / comment classes end in a way that keeps the following
/// class separate.
pub fn alphabet() -> Vec<(&'static str, String)> {
    let mut v: Vec<(&'static str, String)> = Vec::new();
    for k in KEYWORDS {
        v.push(("kw", k.to_string()));
    }
    for p in PUNCT {
        v.push(("punct", p.to_string()));
    }
    for (c, s) in [
        ("id", "x"),
        ("id", "Foo_1"),
        ("int", "0"),
        ("int", "42"),
        ("int", "-1"),
        ("int", "0x1f"),
        ("int", "0b10"),
        ("str", "\"s\""),
        ("str", "\"a\\\"b\""),
        ("code", "[{c}]"),
        ("var", "$v"),
        ("bang", "!add"),
        ("bang", "!cond"),
        ("bang", "!foreach"),
        ("bang", "!cast"),
        ("ws", " "),
        ("ws", "\n"),
        ("ws", "\r\n"),
        ("comment", "// c\n"),
        ("comment", "/* c */"),
        ("comment", "/* a /* n */ b */"),
        ("comment", "/* a /*/ b */ c */"),
        ("comment", "/*/ c */"),
        ("comment", "/* c **/"),
        ("pp", "#ifdef X\n"),
        ("pp", "#ifndef X\n"),
        ("pp", "#define X\n"),
        ("pp", "#else\n"),
        ("pp", "#endif\n"),
        ("pp-bare", "#ifdef"),
        ("pp-bare", "#define"),
        ("err", "\"unterminated"),
        ("err", "[{ open"),
        ("err", "/* open"),
        ("err", ".."),
        ("err", "!bogus"),
        ("err", "$"),
        ("err", "@"),
        ("err", "é"),
        ("err", "\u{2028}"),
        ("err", "0x"),
        ("err", "0b"),
        ("err", "\"a\\"),
        ("err", "\u{feff}"),
        ("err", "\u{0}"),
        ("err", "\u{a0}"),
        ("err", "\u{b}"),
        ("err", "\u{85}"),
        ("err", "\u{200b}"),
        ("err", "\r"),
    ] {
        v.push((c, s.to_string()));
    }
    v
}

/// A smaller alphabet for the longer exhaustive sequences of the thorough tier.
pub fn small_alphabet() -> Vec<(&'static str, String)> {
    let pick = [
        "class", "def", "let", "in", "if", "then", "else", "foreach", "int", "list", "include", "[", "]", "{", "}",
        "(", ")", "<", ">", ":", ";", ",", "=", "#", "x", "1", "\"s\"", "!add", "#ifdef X\n", "#else\n", "#endif\n",
        "\"unterminated", "/* open", "é",
    ];
    pick.iter().map(|s| ("small", s.to_string())).collect()
}
