//! GRAM — grammar-directed program generator.
//!
//! Generates a derivation tree `T` whose node kinds carry the names of the syntax tree's node
//! kinds (the names used in syntax.md / the rule comments of grammar/*.rs) and whose leaves
//! are token lexemes. The tree is what the documented grammar says the parse of the rendered
//! text looks like; identifiers come from a small pool, so programs are syntactically valid
//! and semantically mostly nonsense.
//!
//! G_min = syntax.md + rule comments, intersected with what real TableGen accepts
//! (dag operators start with an identifier, `?`, `!cast` or `!getdagop`).
use crate::fw::Rng;

#[derive(Clone, Debug, PartialEq)]
pub enum T {
    Tok(String),
    Node(&'static str, Vec<T>),
}

pub fn t(s: &str) -> T {
    T::Tok(s.to_string())
}
pub fn n(kind: &'static str, ch: Vec<T>) -> T {
    T::Node(kind, ch)
}

impl T {
    pub fn tokens(&self, out: &mut Vec<String>) {
        match self {
            T::Tok(s) => out.push(s.clone()),
            T::Node(_, ch) => {
                for c in ch {
                    c.tokens(out);
                }
            }
        }
    }
    pub fn token_vec(&self) -> Vec<String> {
        let mut v = Vec::new();
        self.tokens(&mut v);
        v
    }
    pub fn kind(&self) -> &'static str {
        match self {
            T::Tok(_) => "<tok>",
            T::Node(k, _) => k,
        }
    }
    pub fn children(&self) -> &[T] {
        match self {
            T::Tok(_) => &[],
            T::Node(_, c) => c,
        }
    }
    pub fn nodes(&self) -> Vec<&T> {
        self.children().iter().filter(|c| matches!(c, T::Node(..))).collect()
    }
    pub fn count_nodes(&self) -> usize {
        match self {
            T::Tok(_) => 0,
            T::Node(_, c) => 1 + c.iter().map(|x| x.count_nodes()).sum::<usize>(),
        }
    }
    pub fn depth(&self) -> usize {
        match self {
            T::Tok(_) => 0,
            T::Node(_, c) => 1 + c.iter().map(|x| x.depth()).max().unwrap_or(0),
        }
    }
    pub fn statement_kinds(&self, out: &mut std::collections::BTreeSet<&'static str>) {
        if let T::Node(k, ch) = self {
            if STATEMENT_KINDS.contains(k) {
                out.insert(k);
            }
            for c in ch {
                c.statement_kinds(out);
            }
        }
    }
}

pub const STATEMENT_KINDS: [&str; 12] = [
    "Include", "Assert", "Class", "Def", "Defm", "Defset", "Defvar", "Dump", "Foreach", "If", "Let", "MultiClass",
];

pub const ID_POOL: [&str; 28] = ["A", "B", "C", "Base", "Inst", "x", "y", "z", "val", "f1", "f2", "Rc", "i", "NAME", "_x", "x_1", "4x", "16_bit", "0_", "1_a", "classic", "inty", "Def", "defx", "in_", "else2", "endif_", "define9"];
pub const VAR_POOL: [&str; 3] = ["$a", "$b", "$src"];
pub const STR_POOL: [&str; 10] = ["\"\"", "\"s\"", "\"a b\"", "\"e\\\"q\"", "\"t\\n\"", "\"héé\"", "\"C:\\\\\"", "\"\\\\\\\\\"", "\"q\\\\\\\"x\"", "\"// no /* comment [{ }]\""];
pub const INT_POOL: [&str; 15] = ["0", "1", "7", "42", "-3", "+5", "0x1F", "0b101", "9223372036854775807", "-9223372036854775808", "007", "0xabcDEF", "18446744073709551615", "9223372036854775808", "0xFFFFFFFFFFFFFFFF"];
pub const CODE_POOL: [&str; 10] = ["[{ c }]", "[{}]", "[{ return x[i]; }]", "[{ a } b ] c }]", "[{\n  multi\n  line\n}]", "[{ if (x) { y; }}]", "[{ \"q\" // c /* d */ }]", "[{ v[{0}.x] }]", "[{[{}]", "[{ m[{a, b} ] = \"[{\"; }]"];

pub const BANG_NOTYPE: [&str; 44] = [
    "!add", "!and", "!con", "!dag", "!div", "!empty", "!eq", "!filter", "!find", "!foldl", "!foreach", "!ge",
    "!getdagname", "!gt", "!head", "!if", "!initialized", "!interleave", "!le", "!listconcat", "!listflatten",
    "!listremove", "!listsplat", "!logtwo", "!lt", "!mul", "!ne", "!not", "!or", "!range", "!repr", "!setdagarg",
    "!setdagname", "!setdagop", "!shl", "!size", "!sra", "!srl", "!strconcat", "!sub", "!subst", "!substr", "!tail",
    "!tolower",
];
pub const BANG_TYPED: [&str; 5] = ["!cast", "!isa", "!exists", "!getdagarg", "!getdagop"];

#[derive(Clone)]
pub struct GramOpts {
    pub max_depth: usize,
    /// soft size budget in nodes
    pub budget: i64,
    /// include statements (off when the text is used as a single in-memory file where
    /// includes would only produce "not found")
    pub includes: bool,
}

impl Default for GramOpts {
    fn default() -> Self {
        GramOpts { max_depth: 6, budget: 120, includes: true }
    }
}

pub struct Gram<'a> {
    pub rng: &'a mut Rng,
    pub o: GramOpts,
    left: i64,
}

impl<'a> Gram<'a> {
    pub fn new(rng: &'a mut Rng, o: GramOpts) -> Self {
        let left = o.budget;
        Gram { rng, o, left }
    }

    fn spend(&mut self) {
        self.left -= 1;
    }
    fn small(&self, depth: usize) -> bool {
        self.left <= 0 || depth >= self.o.max_depth
    }
    fn count(&mut self, depth: usize, max: usize) -> usize {
        if self.small(depth) {
            0
        } else {
            let k = self.rng.below(max + 1);
            self.long(depth, k)
        }
    }

    /// now and then a list is long (real files have lists of dozens of elements)
    fn long(&mut self, depth: usize, k: usize) -> usize {
        if !self.small(depth) && self.rng.chance(1, 25) {
            k + 3 + self.rng.below(12)
        } else {
            k
        }
    }

    fn id(&mut self) -> T {
        n("Identifier", vec![t(self.rng.pick_str(&ID_POOL))])
    }
    fn integer(&mut self) -> T {
        n("Integer", vec![t(self.rng.pick_str(&INT_POOL))])
    }
    fn small_uint(&mut self) -> T {
        n("Integer", vec![t(&self.rng.below(8).to_string())])
    }
    fn string(&mut self) -> T {
        n("String", vec![t(self.rng.pick_str(&STR_POOL))])
    }

    // SourceFile ::= StatementList
    pub fn source_file(&mut self) -> T {
        let k = 1 + self.rng.below(5);
        let mut st = Vec::new();
        for _ in 0..k {
            st.push(self.statement(0, true));
        }
        n("SourceFile", vec![n("StatementList", st)])
    }

    pub fn statement(&mut self, depth: usize, top: bool) -> T {
        self.spend();
        let small = self.small(depth);
        // weights: include assert class def defm defset defvar dump foreach if let multiclass
        let mut w = [if self.o.includes && top { 2 } else { 0 }, 3, 10, 10, 4, 3, 5, 3, 4, 4, 4, 4];
        if small {
            w[5] = 0;
            w[8] = 0;
            w[9] = 0;
            w[10] = 0;
            w[11] = 0;
        }
        match self.rng.weighted(&w) {
            0 => n("Include", vec![t("include"), self.string()]),
            1 => self.assert(depth),
            2 => self.class(depth),
            3 => self.def(depth),
            4 => self.defm(depth),
            5 => self.defset(depth),
            6 => self.defvar(depth),
            7 => self.dump(depth),
            8 => self.foreach(depth, false),
            9 => self.r#if(depth, false),
            10 => self.r#let(depth, false),
            _ => self.multiclass(depth),
        }
    }

    fn assert(&mut self, depth: usize) -> T {
        n("Assert", vec![t("assert"), self.value(depth + 1), t(","), self.value(depth + 1), t(";")])
    }
    fn defvar(&mut self, depth: usize) -> T {
        n("Defvar", vec![t("defvar"), self.id(), t("="), self.value(depth + 1), t(";")])
    }
    fn dump(&mut self, depth: usize) -> T {
        n("Dump", vec![t("dump"), self.value(depth + 1), t(";")])
    }

    // Class ::= "class" Identifier TemplateArgList? RecordBody
    fn class(&mut self, depth: usize) -> T {
        let mut ch = vec![t("class"), self.id()];
        if self.rng.chance(1, 2) {
            ch.push(self.template_arg_list(depth + 1));
        }
        ch.push(self.record_body(depth + 1));
        n("Class", ch)
    }

    // Def ::= "def" Value? RecordBody
    fn def(&mut self, depth: usize) -> T {
        let mut ch = vec![t("def")];
        if self.rng.chance(5, 6) {
            ch.push(self.name_value(depth + 1));
        }
        ch.push(self.record_body(depth + 1));
        n("Def", ch)
    }

    // object names: NameInner ("#" NameInner)*, NameInner ::= SimpleValue (SliceSuffix | FieldSuffix)*
    // (no `{`-suffix at the top level of a name: it would be the body; nested values are ordinary)
    fn name_value(&mut self, depth: usize) -> T {
        let k = if self.rng.chance(1, 5) { 2 } else { 1 };
        let mut ch = Vec::new();
        for i in 0..k {
            if i > 0 {
                ch.push(t("#"));
            }
            let sv = match self.rng.below(8) {
                0 | 1 => self.string(),
                2 if !self.small(depth) => match self.rng.below(4) {
                    0 => n("List", vec![n("ValueList", self.value_list(depth + 1, "[", "]", 1, 2))]),
                    1 => n("ClassValue", vec![self.id(), t("<"), self.arg_value_list(depth + 1), t(">")]),
                    _ => self.bang(depth + 1),
                },
                _ => self.id(),
            };
            let mut inner = vec![sv];
            if self.rng.chance(1, 8) && !self.small(depth) {
                let sfx = loop {
                    let sfx = self.suffix(depth + 1);
                    if sfx.kind() != "RangeSuffix" {
                        break sfx;
                    }
                };
                inner.push(sfx);
            }
            ch.push(n("InnerValue", inner));
        }
        n("Value", ch)
    }

    // Defm ::= "defm" Value? ParentClassList ";"
    fn defm(&mut self, depth: usize) -> T {
        let mut ch = vec![t("defm")];
        if self.rng.chance(4, 5) {
            ch.push(self.name_value(depth + 1));
        }
        ch.push(self.parent_class_list(depth + 1, 1));
        ch.push(t(";"));
        n("Defm", ch)
    }

    // Defset ::= "defset" Type Identifier "=" "{" Statement* "}"
    fn defset(&mut self, depth: usize) -> T {
        let k = self.count(depth, 3);
        let mut st = vec![t("{")];
        for _ in 0..k {
            st.push(self.statement(depth + 1, false));
        }
        st.push(t("}"));
        n("Defset", vec![t("defset"), self.r#type(depth + 1), self.id(), t("="), n("StatementList", st)])
    }

    fn block(&mut self, depth: usize, mc: bool) -> T {
        let k = self.count(depth, 3);
        let mut st = vec![t("{")];
        for _ in 0..k {
            st.push(if mc { self.mc_statement(depth + 1) } else { self.statement(depth + 1, false) });
        }
        st.push(t("}"));
        n("StatementList", st)
    }

    fn block_or_single(&mut self, depth: usize, mc: bool) -> T {
        if self.rng.chance(1, 2) && !self.small(depth) {
            self.block(depth, mc)
        } else {
            n("StatementList", vec![if mc { self.mc_statement(depth + 1) } else { self.statement(depth + 1, false) }])
        }
    }

    // Foreach ::= "foreach" ForeachIterator "in" ( "{" Statement* "}" | Statement )
    fn foreach(&mut self, depth: usize, mc: bool) -> T {
        let init = match self.rng.below(4) {
            0 => vec![t("{"), self.range_list(), t("}")],
            1 => vec![self.range_piece(false)],
            _ => {
                // a Value that does not start with a decimal integer (that would be a RangePiece)
                let v = loop {
                    let v = self.value(depth + 2);
                    let first = v.token_vec().first().cloned().unwrap_or_default();
                    let c = first.chars().next().unwrap_or('x');
                    let bin = first.starts_with("0b");
                    if (!(c.is_ascii_digit() || c == '-' || c == '+') || bin) && c != '{' {
                        break v;
                    }
                };
                vec![v]
            }
        };
        let mut it = vec![self.id(), t("=")];
        it.extend(init);
        n("Foreach", vec![t("foreach"), n("ForeachIterator", it), t("in"), self.block_or_single(depth + 1, mc)])
    }

    // If ::= "if" Value "then" body ( "else" body )?
    fn r#if(&mut self, depth: usize, mc: bool) -> T {
        // an `if` with an else branch gets a braced then-branch, so that no dangling else can
        // re-attach to a nested statement
        let has_else = self.rng.chance(1, 2);
        let then_body = if has_else { self.block(depth + 1, mc) } else { self.block_or_single(depth + 1, mc) };
        let mut ch = vec![t("if"), self.value(depth + 1), t("then"), then_body];
        if has_else {
            ch.push(t("else"));
            ch.push(self.block_or_single(depth + 1, mc));
        }
        n("If", ch)
    }

    // Let ::= "let" LetList "in" body
    fn r#let(&mut self, depth: usize, mc: bool) -> T {
        let k = 1 + self.rng.below(2);
        let k = self.long(depth, k);
        let mut items = Vec::new();
        for i in 0..k {
            if i > 0 {
                items.push(t(","));
            }
            let mut it = vec![self.id()];
            if self.rng.chance(1, 4) {
                it.push(t("<"));
                it.push(self.range_list());
                it.push(t(">"));
            }
            it.push(t("="));
            it.push(self.value(depth + 2));
            items.push(n("LetItem", it));
        }
        n("Let", vec![t("let"), n("LetList", items), t("in"), self.block_or_single(depth + 1, mc)])
    }

    // MultiClass ::= "multiclass" Identifier TemplateArgList? ParentClassList "{" MultiClassStatement+ "}"
    fn multiclass(&mut self, depth: usize) -> T {
        let mut ch = vec![t("multiclass"), self.id()];
        if self.rng.chance(1, 2) {
            ch.push(self.template_arg_list(depth + 1));
        }
        ch.push(self.parent_class_list(depth + 1, 0));
        ch.push(t("{"));
        let k = 1 + self.count(depth, 2);
        let mut st = Vec::new();
        for _ in 0..k {
            st.push(self.mc_statement(depth + 1));
        }
        st.push(t("}"));
        ch.push(n("StatementList", st));
        n("MultiClass", ch)
    }

    // MultiClassStatement ::= Assert | Def | Defm | Dump | Foreach | Let | If
    fn mc_statement(&mut self, depth: usize) -> T {
        self.spend();
        let small = self.small(depth);
        let w = [2, 8, 3, 2, if small { 0 } else { 2 }, if small { 0 } else { 2 }, if small { 0 } else { 2 }];
        match self.rng.weighted(&w) {
            0 => self.assert(depth),
            1 => self.def(depth),
            2 => self.defm(depth),
            3 => self.dump(depth),
            4 => self.foreach(depth, true),
            5 => self.r#let(depth, true),
            _ => self.r#if(depth, true),
        }
    }

    // TemplateArgList ::= "<" TemplateArgDecl ( "," TemplateArgDecl )* ">"
    fn template_arg_list(&mut self, depth: usize) -> T {
        let k = 1 + self.rng.below(3);
        let k = self.long(depth, k);
        let mut ch = vec![t("<")];
        for i in 0..k {
            if i > 0 {
                ch.push(t(","));
            }
            let mut d = vec![self.r#type(depth + 1), self.id()];
            if self.rng.chance(1, 3) {
                d.push(t("="));
                d.push(self.value(depth + 2));
            }
            ch.push(n("TemplateArgDecl", d));
        }
        ch.push(t(">"));
        n("TemplateArgList", ch)
    }

    // RecordBody ::= ParentClassList Body
    fn record_body(&mut self, depth: usize) -> T {
        n("RecordBody", vec![self.parent_class_list(depth, 0), self.body(depth)])
    }

    // ParentClassList ::= ( ":" ClassRef ( "," ClassRef )* )?
    fn parent_class_list(&mut self, depth: usize, min: usize) -> T {
        let k = if min > 0 { min + self.rng.below(2) } else if self.rng.chance(1, 2) { 0 } else { 1 + self.rng.below(2) };
        let k = if k > 0 { self.long(depth, k) } else { 0 };
        let mut ch = Vec::new();
        for i in 0..k {
            ch.push(t(if i == 0 { ":" } else { "," }));
            ch.push(self.class_ref(depth + 1));
        }
        n("ParentClassList", ch)
    }

    // ClassRef ::= Identifier ( "<" ArgValueList? ">" )?
    fn class_ref(&mut self, depth: usize) -> T {
        let mut ch = vec![self.id()];
        if self.rng.chance(1, 2) {
            ch.push(t("<"));
            ch.push(self.arg_value_list(depth + 1));
            ch.push(t(">"));
        }
        n("ClassRef", ch)
    }

    // ArgValueList ::= ( ArgValue ( "," ArgValue )* )?   positional before named
    fn arg_value_list(&mut self, depth: usize) -> T {
        let k = self.rng.below(4);
        let k = if k > 0 { self.long(depth, k) } else { 0 };
        let named_from = self.rng.below(k + 1);
        let mut ch = Vec::new();
        for i in 0..k {
            if i > 0 {
                ch.push(t(","));
            }
            if i < named_from {
                ch.push(n("PositionalArgValue", vec![self.value(depth + 1)]));
            } else {
                ch.push(n("NamedArgValue", vec![self.value(depth + 1), t("="), self.value(depth + 1)]));
            }
        }
        n("ArgValueList", ch)
    }

    // Body ::= ";" | "{" BodyItem* "}"
    fn body(&mut self, depth: usize) -> T {
        if self.rng.chance(1, 3) || self.small(depth) {
            return n("Body", vec![t(";")]);
        }
        let k = self.rng.below(5);
        let mut ch = vec![t("{")];
        for _ in 0..k {
            ch.push(self.body_item(depth + 1));
        }
        ch.push(t("}"));
        n("Body", ch)
    }

    // BodyItem ::= FieldDef | FieldLet | Defvar | Assert | Dump
    fn body_item(&mut self, depth: usize) -> T {
        self.spend();
        match self.rng.weighted(&[8, 6, 2, 1, 1]) {
            0 => {
                let mut ch = Vec::new();
                if self.rng.chance(1, 6) {
                    ch.push(t("field"));
                }
                ch.push(self.r#type(depth + 1));
                ch.push(self.id());
                if self.rng.chance(2, 3) {
                    ch.push(t("="));
                    ch.push(self.value(depth + 1));
                }
                ch.push(t(";"));
                n("FieldDef", ch)
            }
            1 => {
                let mut ch = vec![t("let"), self.id()];
                if self.rng.chance(1, 5) {
                    ch.push(t("{"));
                    ch.push(self.range_list());
                    ch.push(t("}"));
                }
                ch.push(t("="));
                ch.push(self.value(depth + 1));
                ch.push(t(";"));
                n("FieldLet", ch)
            }
            2 => self.defvar(depth),
            3 => self.assert(depth),
            _ => self.dump(depth),
        }
    }

    // Type ::= bit | int | string | dag | bits<n> | list<T> | ClassId | code
    pub fn r#type(&mut self, depth: usize) -> T {
        match self.rng.weighted(&[3, 4, 3, 2, 2, if depth < self.o.max_depth + 2 { 3 } else { 0 }, 3, 1]) {
            0 => n("BitType", vec![t("bit")]),
            1 => n("IntType", vec![t("int")]),
            2 => n("StringType", vec![t("string")]),
            3 => n("DagType", vec![t("dag")]),
            4 => n("BitsType", vec![t("bits"), t("<"), self.small_uint(), t(">")]),
            5 => n("ListType", vec![t("list"), t("<"), self.r#type(depth + 1), t(">")]),
            6 => n("ClassId", vec![self.id()]),
            _ => n("CodeType", vec![t("code")]),
        }
    }

    // RangeList ::= RangePiece ( "," RangePiece )*
    fn range_list(&mut self) -> T {
        let k = 1 + self.rng.below(3);
        let k = self.long(0, k);
        let mut ch = Vec::new();
        for i in 0..k {
            if i > 0 {
                ch.push(t(","));
            }
            ch.push(self.range_piece(true));
        }
        n("RangeList", ch)
    }

    // RangePiece ::= Integer | Integer "..." Integer | Integer "-" Integer | Integer Integer
    fn range_piece(&mut self, allow_neg_second: bool) -> T {
        let a = self.small_uint();
        match self.rng.below(if allow_neg_second { 4 } else { 3 }) {
            0 => n("RangePiece", vec![a]),
            1 => n("RangePiece", vec![a, t("..."), self.small_uint()]),
            2 => n("RangePiece", vec![a, t("-"), self.small_uint()]),
            _ => n("RangePiece", vec![a, n("Integer", vec![t(&format!("-{}", self.rng.below(8)))])]),
        }
    }

    // Value ::= InnerValue ( "#" InnerValue )*
    pub fn value(&mut self, depth: usize) -> T {
        self.spend();
        let k = if self.rng.chance(1, 8) && !self.small(depth) { 2 + self.rng.below(2) } else { 1 };
        let k = if k > 1 { self.long(depth, k) } else { k };
        let mut ch = Vec::new();
        for i in 0..k {
            if i > 0 {
                ch.push(t("#"));
            }
            ch.push(self.inner_value(depth));
        }
        n("Value", ch)
    }

    // InnerValue ::= SimpleValue ValueSuffix*
    fn inner_value(&mut self, depth: usize) -> T {
        let mut ch = vec![self.simple_value(depth)];
        let k = if self.rng.chance(1, 4) { 1 + self.rng.below(2) } else { 0 };
        for _ in 0..k {
            ch.push(self.suffix(depth + 1));
        }
        n("InnerValue", ch)
    }

    fn suffix(&mut self, depth: usize) -> T {
        match self.rng.below(3) {
            0 => n("RangeSuffix", vec![t("{"), self.range_list(), t("}")]),
            1 => {
                // SliceSuffix ::= "[" SliceElements "]" ; SliceElements ::= (SliceElement ",")* SliceElement ","?
                let k = 1 + self.rng.below(2);
                let mut el = Vec::new();
                for i in 0..k {
                    if i > 0 {
                        el.push(t(","));
                    }
                    let a = self.value(depth + 1);
                    let e = match self.rng.below(4) {
                        0 => vec![a, t("..."), self.value(depth + 1)],
                        1 => vec![a, t("-"), self.value(depth + 1)],
                        _ => vec![a],
                    };
                    el.push(n("SliceElement", e));
                }
                if self.rng.chance(1, 5) {
                    el.push(t(","));
                }
                n("SliceSuffix", vec![t("["), n("SliceElements", el), t("]")])
            }
            _ => n("FieldSuffix", vec![t("."), self.id()]),
        }
    }

    fn value_list(&mut self, depth: usize, bra: &str, ket: &str, min: usize, max: usize) -> Vec<T> {
        let k = if self.small(depth) { min } else { min + self.rng.below(max - min + 1) };
        let k = if k > 0 { self.long(depth, k) } else { 0 };
        let mut ch = vec![t(bra)];
        for i in 0..k {
            if i > 0 {
                ch.push(t(","));
            }
            ch.push(self.value(depth + 1));
        }
        if k > 0 && self.rng.chance(1, 10) {
            ch.push(t(","));
        }
        ch.push(t(ket));
        ch
    }

    fn simple_value(&mut self, depth: usize) -> T {
        let small = self.small(depth);
        let rec = if small { 0 } else { 3 };
        // int str code bool ? bits list dag id classvalue bang cond
        match self.rng.weighted(&[5, 4, 1, 2, 2, rec, rec + 1, rec, 8, rec, rec + 1, rec]) {
            0 => self.integer(),
            1 => {
                // adjacent string literals form one String
                let mut ch = vec![t(self.rng.pick_str(&STR_POOL))];
                if self.rng.chance(1, 10) {
                    ch.push(t(self.rng.pick_str(&STR_POOL)));
                }
                n("String", ch)
            }
            2 => n("Code", vec![t(self.rng.pick_str(&CODE_POOL))]),
            3 => n("Boolean", vec![t(if self.rng.chance(1, 2) { "true" } else { "false" })]),
            4 => n("Uninitialized", vec![t("?")]),
            5 => n("Bits", vec![n("ValueList", self.value_list(depth + 1, "{", "}", 1, 3))]),
            6 => {
                let mut ch = vec![n("ValueList", self.value_list(depth + 1, "[", "]", 0, 3))];
                if self.rng.chance(1, 5) {
                    ch.push(t("<"));
                    ch.push(self.r#type(depth + 1));
                    ch.push(t(">"));
                }
                n("List", ch)
            }
            7 => self.dag(depth + 1),
            8 => self.id(),
            9 => n("ClassValue", vec![self.id(), t("<"), self.arg_value_list(depth + 1), t(">")]),
            10 => self.bang(depth + 1),
            _ => {
                let k = 1 + self.rng.below(3);
                let k = self.long(depth, k);
                let mut ch = vec![t("!cond"), t("(")];
                for i in 0..k {
                    if i > 0 {
                        ch.push(t(","));
                    }
                    ch.push(n("CondClause", vec![self.value(depth + 1), t(":"), self.value(depth + 1)]));
                }
                ch.push(t(")"));
                n("CondOperator", ch)
            }
        }
    }

    // Dag ::= "(" DagArg DagArgList? ")"
    fn dag(&mut self, depth: usize) -> T {
        // operator: identifier-started value, `?`, !cast<T>(..) or !getdagop(..), optionally ":$name"
        let op_val = match self.rng.below(6) {
            0 => n("Value", vec![n("InnerValue", vec![n("Uninitialized", vec![t("?")])])]),
            1 => n(
                "Value",
                vec![n(
                    "InnerValue",
                    vec![n(
                        "BangOperator",
                        vec![t("!cast"), t("<"), self.r#type(depth + 1), t(">"), t("("), self.value(depth + 1), t(")")],
                    )],
                )],
            ),
            _ => n("Value", vec![n("InnerValue", vec![self.id()])]),
        };
        let mut op = vec![op_val];
        if self.rng.chance(1, 4) {
            op.push(t(":"));
            op.push(n("VarName", vec![t(self.rng.pick_str(&VAR_POOL))]));
        }
        let mut ch = vec![t("("), n("DagArg", op)];
        let k = self.count(depth, 3);
        if k > 0 {
            let mut args = Vec::new();
            for i in 0..k {
                if i > 0 {
                    args.push(t(","));
                }
                // directly after an operator without `:$name`, a value starting with `[` or `{` would
                // read as a slice / bit-range suffix of the operator
                let op_named = ch.last().map(|d| d.token_vec().last().map(|x| x.starts_with('$')).unwrap_or(false)).unwrap_or(false);
                let a = loop {
                    let a = match self.rng.below(3) {
                        0 => n("DagArg", vec![t(self.rng.pick_str(&VAR_POOL))]),
                        1 => n("DagArg", vec![self.value(depth + 1)]),
                        _ => n("DagArg", vec![self.value(depth + 1), t(":"), n("VarName", vec![t(self.rng.pick_str(&VAR_POOL))])]),
                    };
                    let first = a.token_vec().first().cloned().unwrap_or_default();
                    if i > 0 || op_named || !matches!(first.as_str(), "[" | "{" | "." | "#") {
                        break a;
                    }
                };
                args.push(a);
            }
            ch.push(n("DagArgList", args));
        }
        ch.push(t(")"));
        n("Dag", ch)
    }

    // BangOperator ::= BANGOP ( "<" Type ">" )? "(" ValueList ")"
    fn bang(&mut self, depth: usize) -> T {
        let typed = self.rng.chance(1, 5);
        let op = if typed { self.rng.pick_str(&BANG_TYPED) } else { self.rng.pick_str(&BANG_NOTYPE) };
        let mut ch = vec![t(op)];
        if typed {
            ch.push(t("<"));
            ch.push(self.r#type(depth + 1));
            ch.push(t(">"));
        }
        ch.extend(self.value_list(depth + 1, "(", ")", 1, 3));
        n("BangOperator", ch)
    }
}

// ---------------------------------------------------------------------------------------
// rendering

#[derive(Clone, Copy, PartialEq, Eq, Debug)]
pub enum Trivia {
    /// single spaces between all tokens
    Single,
    /// random whitespace (spaces, tabs, LF, CRLF), tight where tokens cannot merge
    Mixed,
    /// plus line/block comments, neutral `#define` lines, non-ASCII in comments
    Rich,
}

fn can_be_tight(a: &str, b: &str) -> bool {
    const SAFE: [&str; 11] = ["(", ")", "<", ">", ":", ";", ",", "=", "?", "]", "}"];
    // the paste operator is usually written tight: `NAME#"_x"`, `a#b`, also `a#else2` (one identifier,
    // not a directive: a directive word ends at whitespace or a comment)
    if a == "#" {
        let bf = b.chars().next().unwrap_or(' ');
        return (bf.is_ascii_alphabetic() || bf == '_' || bf == '"') && !["ifdef", "ifndef", "else", "endif", "define"].contains(&b);
    }
    let a_safe = SAFE.contains(&a);
    let b_safe = SAFE.contains(&b) || b == "[" || b == "{";
    if !(a_safe || b_safe) {
        return false;
    }
    // never create `[{`, `..`, `#x`, `-1`, `}]`-in-code etc.
    let al = a.chars().last().unwrap_or(' ');
    let bf = b.chars().next().unwrap_or(' ');
    !matches!((al, bf), ('[', '{') | ('.', '.') | ('#', _) | ('-', _) | ('+', _) | ('/', _) | (_, '/') | (_, '#') | (_, '.'))
        && !(a_safe && b_safe && false)
}

pub fn render(tokens: &[String], trivia: Trivia, rng: &mut Rng) -> String {
    let mut s = String::new();
    if trivia == Trivia::Rich && rng.chance(1, 3) {
        s.push_str("// héllo wörld — 日本語\n");
    }
    for (i, tok) in tokens.iter().enumerate() {
        if i > 0 {
            let prev = tokens[i - 1].as_str();
            match trivia {
                Trivia::Single => s.push(' '),
                Trivia::Mixed | Trivia::Rich => {
                    let tight_ok = can_be_tight(prev, tok);
                    let r = rng.below(if trivia == Trivia::Rich { 19 } else { 10 });
                    match r {
                        0 | 1 if tight_ok => {}
                        0..=4 => s.push(' '),
                        5 => s.push_str("  "),
                        6 => s.push('\t'),
                        7 => s.push('\n'),
                        8 => s.push_str("\r\n"),
                        9 => s.push_str("\n  "),
                        10 => s.push_str([" // c\n", " // c\r\n", "// mac\r"][rng.below(3)]),
                        11 => s.push_str([" /* c */ ", " /** doc **/ ", "/***/", " /* a **/ ", "/*****/ ", " /*//*/ x */*/ "][rng.below(6)]),
                        12 => s.push_str("\n#define FLAG\n"),
                        13 => s.push_str(" /* é€😀 */"),
                        14 => s.push_str("\n// αβγ\n"),
                        // conditional regions that deliver nothing: a disabled region holding text that is
                        // not TableGen and a complete nested conditional with its own #else; empty enabled ones
                        16 => s.push_str("\n#ifdef NEVER_DEFINED_X\n junk \"open\n#ifdef Y\n a [{\n#else\n b */\n#endif\n def ;\n#endif\n"),
                        17 => s.push_str("\n#ifndef NEVER_DEFINED_X\n#endif\n"),
                        18 => s.push_str("\n#ifdef NEVER_DEFINED_X\n#ifndef Z\n#else\n#endif\n#else\n#endif\n"),
                        _ => s.push_str(" /**/ "),
                    }
                }
            }
        }
        s.push_str(tok);
    }
    match trivia {
        Trivia::Single => {}
        _ => match rng.below(4) {
            0 => s.push('\n'),
            1 => s.push_str("\r\n"),
            2 => s.push_str(" // end"),
            _ => {}
        },
    }
    s
}

pub fn random_trivia(rng: &mut Rng) -> Trivia {
    match rng.below(3) {
        0 => Trivia::Single,
        1 => Trivia::Mixed,
        _ => Trivia::Rich,
    }
}

/// Convenience: a rendered random program.
pub fn program(rng: &mut Rng, o: GramOpts) -> (T, String) {
    let tree = Gram::new(rng, o).source_file();
    let tr = random_trivia(rng);
    let text = render(&tree.token_vec(), tr, rng);
    (tree, text)
}
