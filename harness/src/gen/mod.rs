pub mod corpus;
pub mod gram;
pub mod mutate;
pub mod tok;
pub mod sem;
