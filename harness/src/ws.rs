//! In-memory workspaces driving `ide::analysis::AnalysisHost` directly.
use std::collections::{BTreeMap, HashMap};
use std::path::PathBuf;
use std::sync::Arc;

use ide::analysis::{Analysis, AnalysisHost};
use ide::file_system::{FileId, FilePath, FilePosition, FileRange, FileSystem};
use serde_json::{json, Value};
use text_size::{TextRange, TextSize};

pub const WS_DIR: &str = "/ws";
/// INCLUDE_DIR is process-global; the harness sets it once to this directory: a virtual one for the
/// in-memory file system, a real one (below /dev/shm, created on demand) for the server checks that
/// put a document there.
pub const INC_DIR: &str = "/dev/shm/vcheck-incdir";

pub fn init_env() {
    // set before any worker thread exists
    std::env::set_var("INCLUDE_DIR", INC_DIR);
}

#[derive(Default)]
pub struct MemFs {
    pub files: BTreeMap<PathBuf, String>,
    path_to_id: HashMap<FilePath, FileId>,
    id_to_path: HashMap<FileId, FilePath>,
    next: u32,
}

impl MemFs {
    pub fn path_of(&self, id: FileId) -> Option<String> {
        // spelled component by component: `PathBuf` equality (which keys the id table, here and in the
        // server's Vfs) ignores repeated and trailing separators and interior `.` components, so the
        // spelling that was assigned first is an accident of the history, not part of any answer
        self.id_to_path.get(&id).map(|p| p.0.components().collect::<PathBuf>().to_string_lossy().to_string())
    }
    pub fn id_of(&self, path: &str) -> Option<FileId> {
        self.path_to_id.get(&FilePath(PathBuf::from(path))).copied()
    }
    pub fn known_ids(&self) -> Vec<FileId> {
        let mut v: Vec<FileId> = self.id_to_path.keys().copied().collect();
        v.sort();
        v
    }
}

impl FileSystem for MemFs {
    fn assign_or_get_file_id(&mut self, path: FilePath) -> FileId {
        if let Some(id) = self.path_to_id.get(&path) {
            return *id;
        }
        let id = FileId(self.next);
        self.next += 1;
        self.path_to_id.insert(path.clone(), id);
        self.id_to_path.insert(id, path);
        id
    }
    fn path_for_file(&self, file_id: &FileId) -> &FilePath {
        &self.id_to_path[file_id]
    }
    fn read_content(&self, file_path: &FilePath) -> Option<String> {
        // a real file system refuses `file.td/` and `file.td/.` (ENOTDIR); `PathBuf` equality would
        // find the file
        let raw = file_path.0.to_string_lossy();
        if raw.ends_with('/') || raw.ends_with("/.") {
            return None;
        }
        self.files.get(&file_path.0).cloned()
    }
}

pub fn abs(path: &str) -> String {
    if path.starts_with('/') {
        path.to_string()
    } else {
        format!("{WS_DIR}/{path}")
    }
}

pub struct Workspace {
    pub host: AnalysisHost,
    pub fs: MemFs,
    pub root: FileId,
    /// the text the analysis holds for the root (it is never re-read from the file system, so it
    /// can differ from `fs` after a disk-only change)
    pub root_text: Option<String>,
}

impl Workspace {
    /// `files`: (path relative to /ws or absolute, text); `root`: one of the paths.
    pub fn new(files: &[(String, String)], root: &str) -> Workspace {
        let mut fs = MemFs::default();
        for (p, t) in files {
            fs.files.insert(PathBuf::from(abs(p)), t.clone());
        }
        let mut host = AnalysisHost::new();
        let root_path = abs(root);
        let root_id = fs.assign_or_get_file_id(FilePath(PathBuf::from(&root_path)));
        let text = fs.files.get(&PathBuf::from(&root_path)).cloned().unwrap_or_default();
        host.set_file_content(root_id, Arc::from(text.as_str()));
        host.set_root_file(&mut fs, root_id);
        Workspace { host, fs, root: root_id, root_text: Some(text) }
    }

    pub fn from_case(case: &Value) -> Option<Workspace> {
        let (files, root) = case_files(case)?;
        Some(Workspace::new(&files, &root))
    }

    /// server-style edit: new text + the edited file becomes the root
    pub fn edit_as_root(&mut self, path: &str, text: &str) {
        let p = abs(path);
        self.fs.files.insert(PathBuf::from(&p), text.to_string());
        let id = self.fs.assign_or_get_file_id(FilePath(PathBuf::from(&p)));
        self.host.set_file_content(id, Arc::from(text));
        self.host.set_root_file(&mut self.fs, id);
        self.root = id;
        self.root_text = Some(text.to_string());
    }

    /// API-style edit: new text, root unchanged (sources re-collected from the old root)
    pub fn edit_keep_root(&mut self, path: &str, text: &str) {
        let p = abs(path);
        self.fs.files.insert(PathBuf::from(&p), text.to_string());
        let id = self.fs.assign_or_get_file_id(FilePath(PathBuf::from(&p)));
        self.host.set_file_content(id, Arc::from(text));
        let root = self.root;
        if id == root {
            self.root_text = Some(text.to_string());
        }
        self.host.set_root_file(&mut self.fs, root);
    }

    /// the file changes on "disk" only: the analysis is not told (it re-reads included files the
    /// next time the sources are collected)
    pub fn fs_only_edit(&mut self, path: &str, text: &str) {
        self.fs.files.insert(PathBuf::from(abs(path)), text.to_string());
    }

    /// fresh workspace whose root text is given explicitly (the root is never re-read from disk)
    pub fn new_with_root_text(files: &[(String, String)], root: &str, root_text: &str) -> Workspace {
        let mut fs = MemFs::default();
        for (p, t) in files {
            fs.files.insert(PathBuf::from(abs(p)), t.clone());
        }
        let mut host = AnalysisHost::new();
        let root_id = fs.assign_or_get_file_id(FilePath(PathBuf::from(abs(root))));
        host.set_file_content(root_id, Arc::from(root_text));
        host.set_root_file(&mut fs, root_id);
        Workspace { host, fs, root: root_id, root_text: Some(root_text.to_string()) }
    }

    pub fn switch_root(&mut self, path: &str) {
        let p = abs(path);
        let id = self.fs.assign_or_get_file_id(FilePath(PathBuf::from(&p)));
        let text = self.fs.files.get(&PathBuf::from(&p)).cloned().unwrap_or_default();
        self.host.set_file_content(id, Arc::from(text.as_str()));
        self.host.set_root_file(&mut self.fs, id);
        self.root = id;
        self.root_text = Some(text);
    }

    pub fn analysis(&self) -> Analysis {
        self.host.analysis()
    }

    pub fn text_of(&self, id: FileId) -> Option<&String> {
        if id == self.root {
            if let Some(t) = &self.root_text {
                return Some(t);
            }
        }
        let p = self.fs.path_of(id)?;
        self.fs.files.get(&PathBuf::from(p))
    }

    /// The files of the workspace as the analysis sees it (= keys of diagnostics()).
    pub fn workspace_files(&self, a: &Analysis) -> Vec<FileId> {
        let mut v: Vec<FileId> = a.diagnostics().keys().copied().collect();
        v.sort();
        v
    }
}

pub fn case_files(case: &Value) -> Option<(Vec<(String, String)>, String)> {
    let files = case.get("files")?.as_object()?;
    let root = case.get("root")?.as_str()?.to_string();
    if !files.contains_key(&root) {
        return None;
    }
    let v = files.iter().filter_map(|(k, v)| Some((k.clone(), v.as_str()?.to_string()))).collect();
    Some((v, root))
}

pub fn ws_case(files: &[(String, String)], root: &str) -> Value {
    let mut m = serde_json::Map::new();
    for (p, t) in files {
        m.insert(p.clone(), json!(t));
    }
    json!({"kind": "ws", "root": root, "files": m})
}

pub fn pos(file: FileId, off: usize) -> FilePosition {
    FilePosition::new(file, TextSize::new(off as u32))
}

pub fn frange(file: FileId, a: usize, z: usize) -> FileRange {
    FileRange::new(file, TextRange::new(TextSize::new(a as u32), TextSize::new(z as u32)))
}

pub fn r2(r: TextRange) -> (usize, usize) {
    (u32::from(r.start()) as usize, u32::from(r.end()) as usize)
}

/// Offsets worth querying in a text: every char boundary for short texts, else every token
/// boundary ±1 (on char boundaries) plus evenly spread offsets.
pub fn interesting_offsets(text: &str, full_limit: usize) -> Vec<usize> {
    let mut v: Vec<usize> = Vec::new();
    if text.len() <= full_limit {
        v.extend(text.char_indices().map(|(i, _)| i));
        v.push(text.len());
        return v;
    }
    let mut prev_class = 0u8;
    for (i, c) in text.char_indices() {
        let class = if c.is_alphanumeric() || c == '_' { 1 } else if c.is_whitespace() { 2 } else { 3 };
        if class != prev_class || class == 3 {
            v.push(i);
            if i > 0 {
                let mut j = i - 1;
                while !text.is_char_boundary(j) {
                    j -= 1;
                }
                v.push(j);
            }
        }
        prev_class = class;
    }
    v.push(text.len());
    let step = (text.len() / 64).max(1);
    let mut k = 0;
    while k < text.len() {
        let mut j = k;
        while !text.is_char_boundary(j) {
            j -= 1;
        }
        v.push(j);
        k += step;
    }
    v.sort();
    v.dedup();
    // cap the work per file
    if v.len() > 1500 {
        let stride = v.len().div_ceil(1500);
        v = v.into_iter().step_by(stride).collect();
    }
    v
}

/// byte ranges of identifier-like words ([A-Za-z0-9_]+ containing a letter or '_')
pub fn id_tokens_by_parse(text: &str) -> Vec<(usize, usize)> {
    use rowan::NodeOrToken;
    use syntax::syntax_kind::SyntaxKind;
    let parse = syntax::parse(text);
    parse
        .syntax_node()
        .descendants_with_tokens()
        .filter_map(|e| match e {
            NodeOrToken::Token(t) if t.kind() == SyntaxKind::Id => Some(r2(t.text_range())),
            _ => None,
        })
        .collect()
}
