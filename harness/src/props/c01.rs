//! C01 — lossless syntax tree.
use rowan::NodeOrToken;
use syntax::syntax_kind::SyntaxKind;

use super::textspace;
use crate::fw::*;

pub struct C01;

pub fn check_lossless(text: &str) -> Result<(usize, bool), Failure> {
    let parse = syntax::parse(text);
    let root = parse.syntax_node();
    let whole = root.text().to_string();
    if whole != text {
        let at = whole.bytes().zip(text.bytes()).position(|(a, b)| a != b).unwrap_or(whole.len().min(text.len()));
        return Err(Failure::plain(
            "C01.roundtrip",
            format!("tree text differs from input at byte {at}: tree has {} bytes, input {}", whole.len(), text.len()),
        ));
    }
    let rr = root.text_range();
    if u32::from(rr.start()) != 0 || u32::from(rr.end()) as usize != text.len() {
        return Err(Failure::plain("C01.root-range", format!("root range {rr:?} != 0..{}", text.len())));
    }
    let mut offset = 0usize;
    let mut ntok = 0usize;
    let mut interesting = false;
    let mut cat = String::with_capacity(text.len());
    for el in root.descendants_with_tokens() {
        match el {
            NodeOrToken::Token(tk) => {
                let r = tk.text_range();
                let s: usize = u32::from(r.start()) as usize;
                let e: usize = u32::from(r.end()) as usize;
                if s != offset || e - s != tk.text().len() {
                    return Err(Failure::plain(
                        "C01.token-range",
                        format!("token {:?} {:?} has range {r:?}, running offset {offset}", tk.kind(), tk.text()),
                    ));
                }
                if text.get(s..e) != Some(tk.text()) {
                    return Err(Failure::plain(
                        "C01.token-text",
                        format!("token {:?} text {:?} != input[{s}..{e}]", tk.kind(), tk.text()),
                    ));
                }
                cat.push_str(tk.text());
                offset = e;
                ntok += 1;
                match tk.kind() {
                    SyntaxKind::Error => interesting = true,
                    SyntaxKind::PreProcessor if tk.text().trim_end().contains('\n') => interesting = true,
                    _ => {}
                }
            }
            NodeOrToken::Node(nd) => {
                // a node's range is the hull of its children (empty at the running offset)
                let r = nd.text_range();
                let first = nd.first_child_or_token().map(|c| c.text_range().start());
                let last = nd.last_child_or_token().map(|c| c.text_range().end());
                match (first, last) {
                    (Some(f), Some(l)) => {
                        if r.start() != f || r.end() != l {
                            return Err(Failure::plain("C01.node-hull", format!("node {:?} range {r:?} != hull {f:?}..{l:?}", nd.kind())));
                        }
                    }
                    _ => {
                        if !r.is_empty() {
                            return Err(Failure::plain("C01.node-hull", format!("childless node {:?} has range {r:?}", nd.kind())));
                        }
                    }
                }
            }
        }
    }
    if cat != text {
        return Err(Failure::plain("C01.concat", "concatenation of leaf tokens differs from input".to_string()));
    }
    if !text.is_ascii() {
        interesting = true;
    }
    Ok((ntok, interesting))
}

impl Property for C01 {
    fn id(&self) -> &'static str {
        "C01"
    }
    fn rule(&self) -> String {
        "cases = UTF-8 texts from: exhaustive token-class sequences (len<=3 over the full 82-class alphabet incl. error makers, separators none/space; thorough: len<=4 over 34 classes), GRAM programs x trivia policies, 1-2 token mutations, every char-boundary prefix of seed files, windows/cuts of the 39 vendored LLVM files (+CRLF), char noise / non-ASCII insertion, preprocessor regions with junk inside programs. distinct = digest of the text; non-trivial = >=3 tokens and (an Error token, a PreProcessor token spanning a skipped region, or non-ASCII text)".into()
    }
    fn assumptions(&self) -> Vec<String> {
        vec!["rowan's SyntaxNode::text()/text_range() report the green tree faithfully".into()]
    }
    fn families(&self, ctx: &Ctx) -> Vec<Family> {
        textspace::families(ctx, false)
    }
    fn run_case(&self, _ctx: &Ctx, case: &Case) -> Verdict {
        if let Some(text) = textspace::flat_text(case) {
            let r = textspace::on_small_stack(move || std::panic::catch_unwind(|| check_lossless(&text)).map_err(|_| take_panic()));
            return match r {
                Ok(Ok(_)) => Verdict::pass(true),
                Ok(Err(f)) => Verdict::Fail(f),
                Err(desc) => Verdict::Fail(Failure::new("panic", panic_sig(&desc), desc)),
            };
        }
        let Some(text) = textspace::case_text(case) else { return Verdict::Skip("malformed-case") };
        match check_lossless(text) {
            Ok((ntok, interesting)) => Verdict::pass(ntok >= 3 && interesting),
            Err(f) => Verdict::Fail(f),
        }
    }
}
