//! C08 — server liveness: no interleaving of edits and requests deadlocks the server.
use std::time::Duration;

use serde_json::{json, Value};

use crate::fw::*;
use crate::lspc::{all_blocked, Client, RecvError, TempWs};
use crate::sched::Sched;

pub struct C08;

pub const REQUESTS: [&str; 8] = ["documentSymbol", "definition", "references", "hover", "inlayHint", "completion", "documentLink", "foldingRange"];

pub fn doc_text(classes: usize, flavour: u64) -> String {
    let mut t = String::from("include \"inc.td\"\n");
    for i in 0..classes {
        t.push_str(&format!("class C{i}<int a> : Base {{ int x{flavour} = a; }}\ndef d{i} : C{i}<{i}>;\n"));
    }
    // one statement of every other kind the indexer walks (whatever a handler of one of them does - take a
    // lock, write somewhere - happens on a worker thread that holds a snapshot)
    t.push_str(&format!(
        "defvar v{flavour} = {flavour};\nassert !ge(v{flavour}, 0), \"never negative\";\ndump \"v is \" # v{flavour};\nforeach i = [1, 2] in def f#i : Base;\nif !eq(v{flavour}, 1) then {{ def t1 : Base; }} else {{ def e1 : Base; }}\nlet b = 2 in def l1 : Base;\ndefset list<Base> S = {{ def m1 : Base; }}\nmulticlass M<int k> {{ def _a : Base {{ int q = k; }} }}\ndefm X : M<3>;\n"
    ));
    // shapes on which a walk of the analysis must end by itself (a multiclass that is its own parent, a name that
    // begins like the records of its defm and is none of them): a worker that does not come back keeps its snapshot
    t.push_str("multiclass SM : SM { def _q : Base; }\ndefm XS : SM;\ndef uses_xs { Base known = XS_q; int unknown = XSJ; }\n");
    t
}

/// The server binary hands its standard output to the transport for as long as it runs
/// (crates/lsp/src/main.rs: `PipeStdout::lock_tokio()` keeps the lock), so whatever else writes there
/// waits for ever. The in-process servers of this check talk over pipes of their own; to give their
/// threads the surroundings of the real binary, standard output is locked while a case runs (the
/// harness itself prints only between cases and in the parent process).
pub struct StdoutHeld;

static HOLD: std::sync::Mutex<(usize, Option<std::sync::mpsc::Sender<()>>)> = std::sync::Mutex::new((0, None));

impl StdoutHeld {
    pub fn new() -> Self {
        let mut g = HOLD.lock().unwrap_or_else(|e| e.into_inner());
        if g.0 == 0 {
            let (tx, rx) = std::sync::mpsc::channel::<()>();
            let (ack_tx, ack_rx) = std::sync::mpsc::channel::<()>();
            std::thread::spawn(move || {
                let _lock = std::io::stdout().lock();
                let _ = ack_tx.send(());
                let _ = rx.recv();
            });
            let _ = ack_rx.recv();
            g.1 = Some(tx);
        }
        g.0 += 1;
        StdoutHeld
    }
}

impl Drop for StdoutHeld {
    fn drop(&mut self) {
        let mut g = HOLD.lock().unwrap_or_else(|e| e.into_inner());
        g.0 -= 1;
        if g.0 == 0 {
            g.1 = None;
        }
    }
}

pub fn request_params(kind: &str, uri: &str) -> (String, Value) {
    request_params_at(kind, uri, 1, 7)
}

pub fn request_params_at(kind: &str, uri: &str, line: usize, character: usize) -> (String, Value) {
    let td = json!({"uri": uri});
    let pos = json!({"line": line, "character": character});
    match kind {
        "documentSymbol" => ("textDocument/documentSymbol".into(), json!({"textDocument": td})),
        "definition" => ("textDocument/definition".into(), json!({"textDocument": td, "position": pos})),
        "references" => ("textDocument/references".into(), json!({"textDocument": td, "position": pos, "context": {"includeDeclaration": true}})),
        "hover" => ("textDocument/hover".into(), json!({"textDocument": td, "position": pos})),
        "inlayHint" => ("textDocument/inlayHint".into(), json!({"textDocument": td, "range": {"start": {"line": 0, "character": 0}, "end": {"line": 3, "character": 0}}})),
        "completion" => ("textDocument/completion".into(), json!({"textDocument": td, "position": pos})),
        "documentLink" => ("textDocument/documentLink".into(), json!({"textDocument": td})),
        _ => ("textDocument/foldingRange".into(), json!({"textDocument": td})),
    }
}

/// Waits for a response; a timeout only counts as a deadlock with evidence that every server
/// thread is blocked. Err(Some(failure)) = deadlock, Err(None) = inconclusive.
/// `expected_spawns`: the number of tasks the messages sent so far make the server spawn at least (one for
/// every didOpen/didChange with a text, one for every request); 0 = not known.
pub fn await_or_diagnose(c: &mut Client, id: i64, what: &str, patience: Duration, sched: &Sched, expected_spawns: u64, requests_in_flight: u64) -> Result<Value, Option<Failure>> {
    let mut waited = Duration::ZERO;
    let step = Duration::from_millis(400);
    let cpu_before = crate::lspc::thread_cpu_seconds(&c.thread_tag);
    loop {
        match c.wait_response(id, step) {
            Ok(v) => return Ok(v),
            Err(RecvError::Closed) => {
                return Err(Some(Failure::new("C08.server-died", "C08.server-died", format!("the connection closed while waiting for {what} (server main loop ended)"))));
            }
            Err(RecvError::Timeout) => {
                waited += step;
                // A standstill: over three and a half seconds no server thread computes (its processor time does not
                // grow), the threads that wait for a lock or a condition are never scheduled, and every other
                // thread is seen waiting for input (epoll) at some sample - the runtime wakes such a thread
                // several times a second and it goes back to waiting; a thread that computes but is starved by a
                // loaded machine is never seen there. The first quick look uses the cheap rule.
                let (quick, states) = all_blocked(&c.thread_tag, 2, Duration::from_millis(20));
                let any_asleep = quick || states.iter().any(|t| t.wchan.contains("futex"));
                if std::env::var("VERIF_C08_DEBUG").is_ok() {
                    let st = sched.st.lock().unwrap();
                    eprintln!("{waited:?} spawned {} ended {} expected {expected_spawns} {:?}", st.spawned, st.ended, states.iter().map(|t| format!("{}:{}:{}:{}", t.tid, t.state, t.switches, t.wchan.trim())).collect::<Vec<_>>());
                }
                let mut blocked = false;
                if any_asleep && waited >= Duration::from_millis(800) {
                    let cpu_a = crate::lspc::thread_cpu_seconds(&c.thread_tag);
                    let a = crate::lspc::thread_states(&c.thread_tag);
                    let mut seen_waiting: std::collections::BTreeSet<u64> = a.iter().filter(|t| t.wchan.contains("ep_poll")).map(|t| t.tid).collect();
                    // a deadlock lasts. On a loaded machine the answer may be on its way (written by the
                    // server, not yet read by this client's own threads) while every server thread sleeps
                    for _ in 0..7 {
                        match c.wait_response(id, Duration::from_millis(500)) {
                            Ok(v) => return Ok(v),
                            Err(RecvError::Closed) => {
                                return Err(Some(Failure::new("C08.server-died", "C08.server-died", format!("the connection closed while waiting for {what} (server main loop ended)"))));
                            }
                            Err(RecvError::Timeout) => waited += Duration::from_millis(500),
                        }
                        seen_waiting.extend(crate::lspc::thread_states(&c.thread_tag).iter().filter(|t| t.wchan.contains("ep_poll")).map(|t| t.tid));
                    }
                    let cpu_b = crate::lspc::thread_cpu_seconds(&c.thread_tag);
                    let b = crate::lspc::thread_states(&c.thread_tag);
                    let same_threads = a.len() == b.len() && a.iter().zip(&b).all(|(x, y)| x.tid == y.tid);
                    let nobody_computes = cpu_b.iter().all(|(tid, s)| s - cpu_a.get(tid).copied().unwrap_or(0.0) < 0.05);
                    let sleepers_unscheduled = a.iter().zip(&b).all(|(x, y)| {
                        if x.wchan.contains("futex") {
                            y.wchan.contains("futex") && x.switches == y.switches
                        } else {
                            seen_waiting.contains(&x.tid)
                        }
                    });
                    let some_sleeper = a.iter().any(|t| t.wchan.contains("futex"));
                    blocked = !a.is_empty() && same_threads && nobody_computes && sleepers_unscheduled && some_sleeper;
                    // A server that owes nothing is idle, not stuck: every task that was spawned has reported its
                    // end, and as many were spawned as the messages sent so far call for - the answer is on its
                    // way to this client's own reader thread, which a loaded machine may starve for seconds.
                    // (A thread in epoll need not be the main loop: when that is stuck in a handler, the runtime's
                    // other worker waits there for the pipes, and what was sent is never picked up.)
                    if blocked {
                        let st = sched.st.lock().unwrap();
                        if st.spawned == st.ended && st.spawned >= expected_spawns {
                            blocked = false;
                        }
                    }
                }
                let states = if blocked { crate::lspc::thread_states(&c.thread_tag) } else { states };
                if blocked && waited >= Duration::from_millis(800) {
                    let mut dump: Vec<String> = states.iter().map(|t| format!("tid {} state {} syscall {} wchan {}", t.tid, t.state, t.syscall, t.wchan.trim())).collect();
                    {
                        let st = sched.st.lock().unwrap();
                        dump.insert(0, format!("tasks spawned {} ended {}, at least {expected_spawns} called for", st.spawned, st.ended));
                    }
                    // nothing alive and less spawned than the messages call for: a request was never handed to a
                    // task. With as many requests in flight as the request limiter admits (async-lsp's
                    // ConcurrencyLayer, limit = available parallelism) that is the listed finding; below the limit
                    // it is something else
                    let (alive, short) = {
                        let st = sched.st.lock().unwrap();
                        (st.spawned > st.ended, st.spawned < expected_spawns)
                    };
                    let limit = std::thread::available_parallelism().map(|n| n.get() as u64).unwrap_or(1);
                    let sig = if !alive && short {
                        if requests_in_flight >= limit { "C08.request-not-dispatched:at-concurrency-limit" } else { "C08.request-not-dispatched" }
                    } else {
                        "C08.deadlock"
                    };
                    return Err(Some(Failure::new(
                        "C08.deadlock",
                        sig,
                        format!("no response to {what} after {:?}; no server thread has computed since (processor time unchanged), those that wait for a lock were never scheduled, the others wait for input: {dump:?}", waited),
                    )));
                }
                if waited >= patience {
                    // not asleep, and not getting anywhere: a server thread that has burnt a processor for most of
                    // the wait (processor time, not wall clock: a loaded machine does not add to it) over
                    // documents of a few lines that are analysed in milliseconds spins
                    let cpu_now = crate::lspc::thread_cpu_seconds(&c.thread_tag);
                    let burnt = cpu_now.iter().map(|(tid, s)| s - cpu_before.get(tid).copied().unwrap_or(0.0)).fold(0.0f64, f64::max);
                    if burnt >= 20.0 && patience >= Duration::from_secs(30) {
                        return Err(Some(Failure::new(
                            "C08.spinning",
                            "C08.spinning",
                            format!("no response to {what} after {waited:?}, while one server thread has used {burnt:.0} s of processor time: {:?}", states.iter().map(|t| format!("tid {} state {} wchan {}", t.tid, t.state, t.wchan.trim())).collect::<Vec<_>>()),
                        )));
                    }
                    if std::env::var("VERIF_C08_DEBUG").is_ok() {
                        eprintln!("inconclusive wait for {what}: {:?}", states.iter().map(|t| format!("tid {} state {} syscall {} wchan {}", t.tid, t.state, t.syscall, t.wchan.trim())).collect::<Vec<_>>());
                    }
                    return Err(None);
                }
            }
        }
    }
}

fn run_burst(case: &Case) -> Verdict {
    let classes = case["classes"].as_u64().unwrap_or(3) as usize;
    let Some(ops) = case["ops"].as_array() else { return Verdict::Skip("malformed-case") };
    let tw = TempWs::new();
    tw.write("inc.td", "class Base { int b = 0; }\n");
    tw.write("root.td", &doc_text(classes, 0));
    tw.write("other.td", "class Other;\n");
    let uris = [tw.uri("root.td"), tw.uri("inc.td"), tw.uri("other.td")];
    // "faulty": documents carry diagnostics (semantic and syntactic), so that files with published
    // problems leave the workspace when another document becomes the root
    let faulty = case["faulty"].as_bool() == Some(true);
    let fault = |v: i64| if faulty && v % 3 != 1 { "def broken : NoSuchClass;\ndef = ;\n" } else { "" };
    let mut c = Client::start(2);
    // (uncontrolled: the scheduler only counts the tasks that are spawned and that end)
    let sched = Sched::register(&c.thread_tag);
    let tag = c.thread_tag.clone();
    if !c.initialize() {
        Sched::unregister(&tag);
        c.shutdown();
        return Verdict::Skip("initialize-failed");
    }
    // "wide": the root includes many small files and mentions their classes many times, so that the
    // diagnostics task (one vfs read per file) and the location conversion of a request overlap for long
    let wide = case["wide"].as_array().map(|w| (w.first().and_then(|x| x.as_u64()).unwrap_or(50) as usize, w.get(1).and_then(|x| x.as_u64()).unwrap_or(200) as usize));
    if let Some((k, _)) = wide {
        for j in 0..k {
            tw.write(&format!("w{j}.td"), &format!("class W{j} {{ int v = {j}; }}\n"));
        }
    }
    let wide_text = |k: usize, u: usize, version: i64| -> String {
        let mut t = String::from("include \"inc.td\"\n");
        for j in 0..k {
            t.push_str(&format!("include \"w{j}.td\"\n"));
        }
        t.push_str(&format!("class C0<int a> : Base {{ int x{} = a; }}\n", version % 3));
        for i in 0..u {
            t.push_str(&format!("def u{i} : W{}, C0<{i}>;\n", i % k.max(1)));
        }
        t
    };
    let mut version = 1;
    let mut disk_writes: u64 = 0;
    let mut expected_spawns: u64 = 0;
    let mut outstanding: Vec<(i64, String)> = Vec::new();
    let mut opened = [false, false, false];
    let mut concurrent = false;
    for op in ops {
        let kind = op[0].as_str().unwrap_or("");
        let d = (op[1].as_u64().unwrap_or(0) % 3) as usize;
        match kind {
            "open" | "change" => {
                version += 1;
                let text = match d {
                    // now and then the root drops its include (the included file leaves the workspace)
                    0 if faulty && version % 4 == 0 => format!("class Base;\n{}{}", doc_text(classes, version as u64 % 3).replacen("include \"inc.td\"\n", "", 1), fault(version)),
                    0 if wide.is_some() => wide_text(wide.unwrap().0, wide.unwrap().1, version),
                    0 => format!("{}{}", doc_text(classes, version as u64 % 3), fault(version)),
                    1 => format!("class Base {{ int b = {version}; }}\n{}", fault(version)),
                    _ => format!("class Other {{ int o = {version}; }}\n{}", fault(version)),
                };
                if kind == "open" || !opened[d] {
                    c.did_open(&uris[d], &text);
                    opened[d] = true;
                } else {
                    c.did_change(&uris[d], version, &text);
                }
                expected_spawns += 1;
                if c.sent_notifications >= 2 {
                    concurrent = true;
                }
            }
            "req" => {
                let target = if opened[d] { d } else if opened[0] { 0 } else { continue };
                // in a wide root the position is the name of the class every def derives from
                let (m, p) = match wide {
                    Some((k, _)) if target == 0 => request_params_at(op[2].as_str().unwrap_or("documentSymbol"), &uris[target], k + 1, 7),
                    _ => request_params(op[2].as_str().unwrap_or("documentSymbol"), &uris[target]),
                };
                let id = c.send_request(&m, p);
                expected_spawns += 1;
                outstanding.push((id, m));
            }
            "close" => {
                if opened[d] {
                    c.notify("textDocument/didClose", json!({"textDocument": {"uri": uris[d]}}));
                    opened[d] = false;
                }
            }
            // a change notification that carries no change (editors send it, for instance, when only the
            // version moved on), and a save: notifications the server has little or nothing to do for
            "empty-change" => {
                if opened[d] {
                    version += 1;
                    c.notify("textDocument/didChange", json!({"textDocument": {"uri": uris[d], "version": version}, "contentChanges": []}));
                }
            }
            "save" => {
                if opened[d] {
                    c.notify("textDocument/didSave", json!({"textDocument": {"uri": uris[d]}}));
                }
            }
            // another program rewrites a file of the workspace on disk (whether or not it is open as a document)
            "disk-change" => {
                disk_writes += 1;
                let text = match d {
                    0 => format!("{}// written by another program, {disk_writes}\n", doc_text(classes, disk_writes % 3)),
                    1 => format!("class Base {{ int b = {disk_writes}; int c{disk_writes} = 0; }}\n"),
                    _ => format!("class Other {{ int o{disk_writes} = 0; }}\n"),
                };
                tw.write(["root.td", "inc.td", "other.td"][d], &text);
            }
            "pause" => std::thread::sleep(Duration::from_micros(op[1].as_u64().unwrap_or(100).min(20_000))),
            // go on the moment the server starts publishing (its diagnostics task is then in the middle
            // of its per-file loop); a timeout just goes on
            "await-publish" => {
                let _ = c.wait_for_notification("textDocument/publishDiagnostics", Duration::from_secs(20));
            }
            _ => {}
        }
    }
    // barrier: a last request; the main loop handles messages in order
    if opened.iter().any(|o| *o) {
        let target = opened.iter().position(|o| *o).unwrap_or(0);
        let (m, p) = request_params("foldingRange", &uris[target]);
        let id = c.send_request(&m, p);
        expected_spawns += 1;
        outstanding.push((id, format!("{m} (barrier)")));
    }
    let mut verdict = Verdict::Pass { nontrivial: concurrent && !outstanding.is_empty(), labels: vec![] };
    let requests_in_flight = outstanding.len() as u64;
    for (id, what) in outstanding {
        match await_or_diagnose(&mut c, id, &what, Duration::from_secs(30), &sched, expected_spawns, requests_in_flight) {
            Ok(v) => {
                if v.get("error").is_some() && v["error"]["code"].as_i64() != Some(-32800) {
                    // an error response is still a response; internal errors are C03's business
                }
            }
            Err(Some(f)) => {
                verdict = Verdict::Fail(f);
                break;
            }
            Err(None) => {
                verdict = Verdict::Skip("slow-inconclusive");
                break;
            }
        }
    }
    Sched::unregister(&tag);
    c.shutdown();
    verdict
}

// ---------------------------------------------------------------------------------------
// controlled schedules

#[derive(Clone, Debug)]
pub struct Step {
    pub options: Vec<String>,
    pub chosen: String,
    pub last: Option<String>,
}

pub enum Outcome {
    Completed,
    Deadlock(String),
    Diverged(String),
    Inconclusive(String),
}

pub struct RunOut {
    pub steps: Vec<Step>,
    pub outcome: Outcome,
    pub concurrent_steps: usize,
}

pub const HANDLERS: [&str; 5] = ["change-root", "change-included", "open-included", "resend-root", "close-root"];

/// Runs one scenario under the controlled scheduler following `choices` (then: keep running the
/// same actor, else the first parked one).
pub fn run_schedule(handler: &str, requests: &[String], choices: &[String]) -> RunOut {
    let tw = TempWs::new();
    tw.write("inc.td", "class Base { int b = 0; }\n");
    tw.write("root.td", &doc_text(2, 0));
    let uris = [tw.uri("root.td"), tw.uri("inc.td")];
    let mut c = Client::start(2);
    let sched = Sched::register(&c.thread_tag);
    let tag = c.thread_tag.clone();
    let finish = |c: Client, steps: Vec<Step>, outcome: Outcome, conc: usize| {
        Sched::unregister(&tag);
        c.shutdown();
        RunOut { steps, outcome, concurrent_steps: conc }
    };
    if !c.initialize() {
        return finish(c, vec![], Outcome::Inconclusive("initialize failed".into()), 0);
    }
    // phase A (uncontrolled): open the root and let everything finish
    c.did_open(&uris[0], &doc_text(2, 0));
    // (a server that never finishes with the document it was given - every thread asleep, the threads that
    // wait for a lock never scheduled, for four seconds and more - has stopped making progress)
    let mut idle = false;
    let mut standstill: Option<Vec<crate::lspc::ThreadState>> = None;
    let mut confirmed = 0;
    for _ in 0..10 {
        if sched.wait_idle(1, Duration::from_secs(2)) {
            idle = true;
            break;
        }
        let (blocked, states) = all_blocked(&c.thread_tag, 4, Duration::from_millis(40));
        if blocked && standstill.as_ref().map(|s| crate::lspc::same_standstill(s, &states)).unwrap_or(false) {
            confirmed += 1;
            if confirmed >= 2 {
                let dump: Vec<String> = states.iter().map(|t| format!("tid {} state {} wchan {}", t.tid, t.state, t.wchan.trim())).collect();
                return finish(c, vec![], Outcome::Deadlock(format!("after didOpen of the root the background work never ends: a task is still alive and every server thread sleeps, unscheduled for more than four seconds: {dump:?}")), 0);
            }
        } else {
            confirmed = 0;
        }
        standstill = if blocked { Some(states) } else { None };
    }
    if !idle {
        return finish(c, vec![], Outcome::Inconclusive("setup did not become idle".into()), 0);
    }
    sched.set_controlled(true);
    let patience = Duration::from_secs(20);
    // N0: a change whose diagnostics task T0 stays parked at its first point
    c.did_change(&uris[0], 2, &doc_text(2, 1));
    loop {
        let Some(s) = sched.wait_settled(patience) else {
            let dbg = format!("N0 did not settle; log {:?}; actors {:?}", sched.log(), sched.st.lock().unwrap().actors);
            return finish(c, vec![], Outcome::Inconclusive(dbg), 0);
        };
        if s.parked.iter().any(|p| p.0 == "main") {
            sched.release("main");
        } else if sched.counters().3 >= 2 {
            break;
        } else if !s.blocked.is_empty() {
            return finish(c, vec![], Outcome::Deadlock(format!("during setup notification: blocked {:?}, parked {:?}", s.blocked, s.parked)), 0);
        } else {
            std::thread::sleep(Duration::from_micros(100));
        }
    }
    // requests: each spawns a task that parks at task.begin
    let mut ids = Vec::new();
    for r in requests {
        let (m, p) = request_params(r, &uris[0]);
        let spawned_before = sched.counters().0;
        ids.push((c.send_request(&m, p), m));
        let t0 = std::time::Instant::now();
        loop {
            let Some(s) = sched.wait_settled(patience) else { return finish(c, vec![], Outcome::Inconclusive("request did not settle".into()), 0) };
            if s.parked.iter().any(|p| p.0 == "main") {
                sched.release("main");
            } else if sched.counters().0 > spawned_before {
                break;
            } else if t0.elapsed() > patience {
                return finish(c, vec![], Outcome::Inconclusive("request was not picked up".into()), 0);
            } else {
                std::thread::sleep(Duration::from_micros(100));
            }
        }
    }
    // N1: the handler under test
    match handler {
        "change-root" => c.did_change(&uris[0], 3, &doc_text(2, 2)),
        // the same text again (an editor re-sending an unchanged buffer)
        "resend-root" => c.did_change(&uris[0], 3, &doc_text(2, 1)),
        "close-root" => {
            c.notify("textDocument/didClose", json!({"textDocument": {"uri": uris[0]}}));
        }
        "change-included" => c.did_open(&uris[1], "class Base { int b = 1; }\n"),
        _ => c.did_open(&uris[1], "class Base { int b = 0; }\nclass Other;\n"),
    }
    let mut steps: Vec<Step> = Vec::new();
    let mut last: Option<String> = None;
    let mut conc = 0usize;
    let t1 = std::time::Instant::now();
    loop {
        let Some(s) = sched.wait_settled(patience) else { return finish(c, steps, Outcome::Inconclusive("did not settle".into()), conc) };
        if sched.counters().2 < 3 {
            // the handler under test has not reached its first point yet
            if t1.elapsed() > patience {
                return finish(c, steps, Outcome::Inconclusive("notification was not picked up".into()), conc);
            }
            std::thread::sleep(Duration::from_micros(100));
            continue;
        }
        if s.parked.is_empty() {
            if !s.blocked.is_empty() {
                // a deadlock lasts: the classification (asleep, not scheduled for some milliseconds) is
                // confirmed a second and a half later. On a loaded machine a released thread may simply
                // not have been given a processor yet, or wait for one of the harness's own locks
                std::thread::sleep(Duration::from_millis(1500));
                let again = sched.wait_settled(patience);
                if again.as_ref() != Some(&s) {
                    continue;
                }
                let log = sched.log();
                let tail: Vec<String> = log.iter().rev().take(12).rev().map(|(a, s)| format!("{a}@{s}")).collect();
                return finish(c, steps, Outcome::Deadlock(format!("no actor can be released; blocked: {:?}; last events: {tail:?}", s.blocked)), conc);
            }
            break;
        }
        let mut options: Vec<String> = s.parked.iter().map(|p| p.0.clone()).collect();
        options.sort();
        let chosen = if steps.len() < choices.len() {
            let want = &choices[steps.len()];
            if !options.contains(want) {
                return finish(c, steps, Outcome::Diverged(format!("step {}: {want} is not parked (parked: {options:?})", choices.len())), conc);
            }
            want.clone()
        } else {
            match &last {
                Some(l) if options.contains(l) => l.clone(),
                _ => options[0].clone(),
            }
        };
        if options.len() >= 2 && options.contains(&"main".to_string()) {
            conc += 1;
        }
        sched.release(&chosen);
        steps.push(Step { options, chosen: chosen.clone(), last: last.clone() });
        last = Some(chosen);
        if steps.len() > 400 {
            return finish(c, steps, Outcome::Inconclusive("more than 400 steps".into()), conc);
        }
    }
    sched.set_controlled(false);
    // every request and a barrier must be answered
    let (m, p) = request_params("foldingRange", &uris[0]);
    ids.push((c.send_request(&m, p), format!("{m} (barrier)")));
    // at least: the first didOpen, the change N0, every request and the barrier
    let expected_spawns = 2 + ids.len() as u64;
    for (id, what) in ids {
        match await_or_diagnose(&mut c, id, &what, Duration::from_secs(20), &sched, expected_spawns, 0) {
            Ok(_) => {}
            Err(Some(f)) => return finish(c, steps, Outcome::Deadlock(f.detail), conc),
            Err(None) => return finish(c, steps, Outcome::Inconclusive(format!("no answer to {what}")), conc),
        }
    }
    finish(c, steps, Outcome::Completed, conc)
}

fn preemptions(steps: &[Step]) -> usize {
    steps.iter().filter(|s| matches!(&s.last, Some(l) if *l != s.chosen && s.options.contains(l))).count()
}

/// next choice prefix in DFS order with at most `bound` preemptions, or None when exhausted
pub fn next_prefix(steps: &[Step], bound: usize) -> Option<Vec<String>> {
    for i in (0..steps.len()).rev() {
        let st = &steps[i];
        let pos = st.options.iter().position(|o| *o == st.chosen).unwrap_or(0);
        for alt in st.options.iter().skip(pos + 1) {
            let mut cand: Vec<Step> = steps[..i].to_vec();
            cand.push(Step { options: st.options.clone(), chosen: alt.clone(), last: st.last.clone() });
            if preemptions(&cand) <= bound {
                return Some(cand.iter().map(|s| s.chosen.clone()).collect());
            }
        }
    }
    None
}

fn run_sched_case(case: &Case) -> Verdict {
    let handler = case["handler"].as_str().unwrap_or("change-root").to_string();
    let requests: Vec<String> = case["requests"].as_array().map(|a| a.iter().filter_map(|x| x.as_str().map(|s| s.to_string())).collect()).unwrap_or_default();
    let choices: Vec<String> = case["choices"].as_array().map(|a| a.iter().filter_map(|x| x.as_str().map(|s| s.to_string())).collect()).unwrap_or_default();
    let out = run_schedule(&handler, &requests, &choices);
    match out.outcome {
        Outcome::Completed => Verdict::Pass { nontrivial: out.concurrent_steps >= 1, labels: vec![] },
        Outcome::Deadlock(d) => Verdict::Fail(Failure::new("C08.deadlock", "C08.deadlock", format!("handler {handler} against requests {requests:?}, schedule {:?}: {d}", out.steps.iter().map(|s| s.chosen.clone()).collect::<Vec<_>>()))),
        Outcome::Diverged(_) => Verdict::Skip("schedule-diverged"),
        Outcome::Inconclusive(why) => Verdict::Skip(match why.as_str() {
            w if w.starts_with("did not settle") => "inconclusive:did-not-settle",
            w if w.starts_with("notification was not picked up") => "inconclusive:notification-not-picked-up",
            w if w.starts_with("no answer") => "inconclusive:no-answer-but-threads-active",
            w if w.starts_with("more than") => "inconclusive:too-many-steps",
            w if w.starts_with("N0") => "inconclusive:setup-notification",
            w if w.starts_with("request") => "inconclusive:request-setup",
            _ => "inconclusive:other",
        }),
    }
}

fn gen_burst(rng: &mut Rng) -> Case {
    let n = 2 + rng.below(7);
    let mut ops: Vec<Value> = vec![json!(["open", 0])];
    for _ in 0..n {
        match rng.below(10) {
            0..=3 => ops.push(json!(["change", rng.below(3)])),
            4 => ops.push(json!(["open", 1 + rng.below(2)])),
            5..=6 => ops.push(json!(["req", rng.below(3), REQUESTS[rng.below(REQUESTS.len())]])),
            7 => {
                if rng.chance(1, 2) {
                    ops.push(json!(["close", rng.below(3)]));
                } else {
                    ops.push(json!(["req", rng.below(3), REQUESTS[rng.below(REQUESTS.len())]]));
                }
            }
            8 => ops.push(json!([if rng.chance(2, 3) { "empty-change" } else { "save" }, rng.below(3)])),
            _ => ops.push(json!(["pause", rng.below(3000)])),
        }
    }
    let classes = [1, 3, 30, 300][rng.below(4)];
    json!({"kind": "burst", "classes": classes, "faulty": rng.chance(1, 2), "ops": ops})
}

impl Property for C08 {
    fn id(&self) -> &'static str {
        "C08"
    }
    fn rule(&self) -> String {
        "the real Server (router + lifecycle + concurrency layers) in-process over an in-memory pipe. Controlled part: per scenario - handler under test in {change root, change included document, open included document, re-send identical text, close root} against the still-parked diagnostics task of the previous notification and {no request | one of the 8 request kinds | thorough: every pair of request kinds} - every interleaving of the schedule points (verif hooks) with at most 1 preemption (thorough: 3) is enumerated by stateless DFS; a released thread that does not reach its next point is classified running/blocked from /proc; deadlock = no actor can be released while some are blocked. Uncontrolled part: bursts of 3..9 operations (didOpen/didChange/didClose of a root, its included document and a third independent document back to back, each of the 8 request kinds, sub-3ms pauses) on documents of 1..300 classes, half of them with documents that carry diagnostics and a root that sometimes drops its include (files with published problems leave the workspace); all 8x2 change-then-request pairs, request floods (2..32 requests written back to back, then an edit and one more request), 8x5x2 workspace-switch sequences and 40 wide-workspace sequences (a root with 40 or 300 includes and 200 or 3000 uses of one class; references / definition / documentLink / documentSymbol requests in flight; the next edit sent the moment publishing starts) enumerated; every request and a final barrier request must be answered; a missing answer is a deadlock only with evidence (all server threads asleep with unchanged context-switch counters over 4 samples, and again, with the very same counters, three seconds later - a deadlock lasts, an answer that is merely late on a loaded machine arrives), else inconclusive; in the controlled part a state without a releasable actor is likewise confirmed after a second and a half. distinct = digest of the schedule / operation list; non-trivial = a step at which the handler and a task could both be released (controlled), >=2 document notifications in flight with >=1 request (bursts)".into()
    }
    fn assumptions(&self) -> Vec<String> {
        vec!["OS scheduling decides the interleaving in the uncontrolled part; liveness is checked as 'answers within the patience window', blocked-thread evidence from /proc/self/task".into()]
    }
    fn families(&self, ctx: &Ctx) -> Vec<Family> {
        vec![
            Family::new("burst-pairs", 1, |_c, _r, emit| {
                for classes in [1, 40] {
                    for r in REQUESTS {
                        for d in 0..2 {
                            let ops = json!([["open", 0], ["change", d], ["req", 0, r], ["change", 0], ["req", d, r]]);
                            if !emit(json!({"kind": "burst", "classes": classes, "ops": ops})) {
                                return;
                            }
                        }
                    }
                    // a file changes on disk behind the server's back; a notification the server has nothing to do
                    // for follows (whatever it does then with what it finds on disk, it goes on afterwards)
                    for quiet in ["empty-change", "save", "close"] {
                        for changed in 0..3 {
                            for d in 0..2 {
                                let ops = json!([["open", 0], ["open", 1], ["pause", 20000], ["disk-change", changed], [quiet, d], ["req", 0, "documentSymbol"], ["change", 0], ["req", 1, "hover"]]);
                                if !emit(json!({"kind": "burst", "classes": classes, "ops": ops})) {
                                    return;
                                }
                                let ops = json!([["open", 0], ["await-publish", 0], ["disk-change", changed], [quiet, 0], ["req", 0, "documentSymbol"], ["change", 0], ["req", 0, "hover"]]);
                                if !emit(json!({"kind": "burst", "classes": classes, "ops": ops})) {
                                    return;
                                }
                            }
                        }
                    }
                    // notifications the server does little for, between edits that it does a lot for
                    for quiet in ["empty-change", "save"] {
                        for d in 0..2 {
                            let ops = json!([["open", 0], ["open", 1], [quiet, d], ["change", 0], ["req", 0, "hover"], ["change", 1], [quiet, 0], ["change", 0], ["change", 0], ["req", 1, "documentSymbol"]]);
                            if !emit(json!({"kind": "burst", "classes": classes, "ops": ops})) {
                                return;
                            }
                        }
                    }
                }
            })
            .exhaustive(),
            {
                // one chunk per scenario: handler x (no request | one of the 8 request kinds)
                let bound = ctx.tier.pick(1usize, 3usize);
                let max_per_scenario = ctx.tier.pick(60usize, 20000usize);
                // request settings: none, each single request; thorough: also every unordered pair
                let mut settings: Vec<Vec<String>> = vec![vec![]];
                for r in REQUESTS {
                    settings.push(vec![r.to_string()]);
                }
                if ctx.tier == Tier::Thorough {
                    for (i, a) in REQUESTS.iter().enumerate() {
                        for b in &REQUESTS[i..] {
                            settings.push(vec![a.to_string(), b.to_string()]);
                        }
                    }
                }
                let nset = settings.len();
                Family::new("controlled-schedules", (HANDLERS.len() * nset) as u64, move |chunk, _r, emit| {
                    let handler = HANDLERS[chunk as usize % HANDLERS.len()];
                    let requests: Vec<String> = settings[chunk as usize / HANDLERS.len()].clone();
                    let mut prefix: Vec<String> = Vec::new();
                    for _ in 0..max_per_scenario {
                        // exploration run (discovers the branching), then the case is evaluated on its own
                        let out = run_schedule(handler, &requests, &prefix);
                        let full: Vec<String> = out.steps.iter().map(|s| s.chosen.clone()).collect();
                        if !emit(json!({"kind": "sched", "handler": handler, "requests": requests, "choices": full})) {
                            return;
                        }
                        if !matches!(out.outcome, Outcome::Completed) {
                            return;
                        }
                        match next_prefix(&out.steps, bound) {
                            Some(p) => prefix = p,
                            None => return,
                        }
                    }
                })
            },
            // documents with diagnostics, a third independent document: files with published problems
            // leave the workspace (other root, include dropped), then further edits and a request
            // many requests in flight when an edit arrives: k requests written back to back (one kind, or
            // all kinds in turn), then a change, then one more request - all must be answered
            Family::new("request-floods", 2, |c, _r, emit| {
                let classes = [40, 300][c as usize % 2];
                for k in [2usize, 3, 4, 5, 6, 8, 12, 16, 32] {
                    for kind in 0..4usize {
                        let mut ops = vec![json!(["open", 0]), json!(["open", 1])];
                        for i in 0..k {
                            let r = match kind {
                                0 => "hover",
                                1 => "references",
                                2 => "documentSymbol",
                                _ => REQUESTS[i % REQUESTS.len()],
                            };
                            ops.push(json!(["req", i % 2, r]));
                        }
                        ops.push(json!(["change", kind % 2]));
                        ops.push(json!(["req", 0, "hover"]));
                        if !emit(json!({"kind": "burst", "classes": classes, "ops": ops})) {
                            return;
                        }
                    }
                }
            })
            .exhaustive(),
            Family::new("workspace-switch-bursts", 1, |_c, _r, emit| {
                for classes in [1, 40] {
                    for r in REQUESTS {
                        for (a, b) in [(0, 2), (1, 2), (2, 0), (0, 1), (0, 0)] {
                            let ops = json!([["open", a], ["open", b], ["change", b], ["req", b, r], ["change", a], ["change", a], ["req", a, r]]);
                            if !emit(json!({"kind": "burst", "classes": classes, "faulty": true, "ops": ops})) {
                                return;
                            }
                        }
                    }
                }
            })
            .exhaustive(),
            // a root with many includes and many uses: requests whose answers name many locations
            // (references, definition, documentLink) are in flight together with the diagnostics task
            // when the next edit arrives
            Family::new("wide-workspace-bursts", 1, |_c, _r, emit| {
                for (k, u) in [(40, 200), (300, 3000)] {
                    for r in ["references", "definition", "documentLink", "documentSymbol"] {
                        for shape in 0..3 {
                            let ops = match shape {
                                0 => json!([["open", 0], ["req", 0, r], ["req", 0, r], ["req", 0, r], ["await-publish"], ["change", 0], ["req", 0, r], ["await-publish"], ["change", 0], ["req", 0, r]]),
                                1 => json!([["open", 0], ["req", 0, r], ["pause", 2000], ["change", 0], ["req", 0, r], ["change", 0]]),
                                _ => json!([["open", 0], ["pause", 5000], ["req", 0, r], ["req", 0, "references"], ["change", 0], ["req", 0, r], ["close", 0]]),
                            };
                            // the race windows are real-time: the await-publish shape is tried three times
                            for rep in 0..if shape == 0 { 3 } else { 1 } {
                                if !emit(json!({"kind": "burst", "classes": 1, "wide": [k, u], "rep": rep, "ops": ops})) {
                                    return;
                                }
                            }
                        }
                    }
                }
            })
            .exhaustive(),
            Family::new("burst-random", ctx.tier.pick(16, 200), |_c, rng, emit| {
                for _ in 0..10 {
                    if !emit(gen_burst(rng)) {
                        return;
                    }
                }
            }),
        ]
    }
    fn run_case(&self, _ctx: &Ctx, case: &Case) -> Verdict {
        let _stdout = StdoutHeld::new();
        match case["kind"].as_str() {
            Some("sched") => run_sched_case(case),
            // the repro of a finding that needs a loaded machine (a wake-up lost in a window of a few
            // instructions): the case is run while twice as many threads as processors spin, a few times
            Some("burst") if case["stress"].as_bool() == Some(true) => {
                let stop = std::sync::Arc::new(std::sync::atomic::AtomicBool::new(false));
                let n = 2 * std::thread::available_parallelism().map(|n| n.get()).unwrap_or(8);
                let spinners: Vec<_> = (0..n)
                    .map(|_| {
                        let stop = stop.clone();
                        std::thread::spawn(move || {
                            let mut x = 0u64;
                            while !stop.load(std::sync::atomic::Ordering::Relaxed) {
                                x = x.wrapping_mul(6364136223846793005).wrapping_add(1);
                                std::hint::black_box(x);
                            }
                        })
                    })
                    .collect();
                // (as many requests at once as the limiter admits, and one more)
                let limit = std::thread::available_parallelism().map(|n| n.get()).unwrap_or(1);
                let mut ops = vec![json!(["open", 0])];
                ops.extend((0..=limit).map(|_| json!(["req", 0, "documentSymbol"])));
                let case = &json!({"kind": "burst", "classes": case["classes"].as_u64().unwrap_or(0), "ops": ops});
                let mut v = Verdict::pass(false);
                for _ in 0..6 {
                    v = run_burst(case);
                    if matches!(v, Verdict::Fail(_)) {
                        break;
                    }
                }
                stop.store(true, std::sync::atomic::Ordering::Relaxed);
                for s in spinners {
                    let _ = s.join();
                }
                v
            }
            Some("burst") => run_burst(case),
            _ => Verdict::Skip("malformed-case"),
        }
    }
    fn shrink_keep(&self) -> &'static [&'static str] {
        &["kind"]
    }
}
