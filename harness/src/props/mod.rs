pub mod c01;
pub mod c02;
pub mod textspace;

use crate::fw::Property;

pub fn registry() -> Vec<Box<dyn Property>> {
    vec![Box::new(c01::C01), Box::new(c02::C02)]
}
