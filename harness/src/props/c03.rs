//! C03 — analysis totality: every IDE query answers on every workspace state.
use super::{wsq, wsspace};
use crate::fw::*;
use crate::ws::Workspace;

pub struct C03;

impl Property for C03 {
    fn id(&self) -> &'static str {
        "C03"
    }
    fn hang_is_violation(&self) -> bool {
        true
    }
    fn rule(&self) -> String {
        "workspaces (root + 0..3 included files, acyclic, includes resolved via the including file's directory or INCLUDE_DIR): 28 semantic stress patterns (self/mutual references, redefinitions, shadowing), 'semantic soup' programs over a 4-name pool, their typing prefixes / single-token edits / noise, GRAM programs, the seed directory with every file as root, and the 39 vendored LLVM files with their real includes; x diagnostics, and per file document_symbol / folding_range / document_link, inlay_hint for {full, empty at up to 300 offsets, all sub-ranges if <=40 bytes else 32 random}, goto_definition / references / hover / completion(None and '!') at every offset (files <=400 bytes) or every token boundary +-1 plus 64 spread offsets. Oracle: every call returns (catch_unwind, supervisor for aborts, step budgets for parser and include traversal). distinct = digest of workspace; non-trivial = >=1 symbol in the outline or >=1 query answered with content, and not a verbatim corpus/seed workspace".into()
    }
    fn assumptions(&self) -> Vec<String> {
        vec!["include cycles are C16's business and not generated here".into(), "queries run on 256 MiB stacks".into()]
    }
    fn families(&self, ctx: &Ctx) -> Vec<Family> {
        wsspace::families(ctx)
    }
    fn run_case(&self, _ctx: &Ctx, case: &Case) -> Verdict {
        let Some((files, root)) = crate::ws::case_files(case) else { return Verdict::Skip("malformed-case") };
        let total: usize = files.iter().map(|f| f.1.len()).sum();
        wsq::budgets_on(total);
        let ws = Workspace::new(&files, &root);
        let a = ws.analysis();
        let mut rng = Rng::new(digest(case));
        let r = wsq::sweep(&ws, &a, &mut rng, 400, &mut |_, _, _, _| {});
        wsq::budgets_off();
        match r {
            Ok(st) => {
                let verbatim = case.get("files").and_then(|f| f.as_object()).map(|o| o.len() > 8).unwrap_or(false);
                Verdict::Pass { nontrivial: (st.symbols >= 1 || st.answered >= 1) && !verbatim, labels: vec![if st.files >= 2 { "multi-file" } else { "single-file" }] }
            }
            Err(f) => Verdict::Fail(f),
        }
    }
    fn shrink_keep(&self) -> &'static [&'static str] {
        &["kind", "root"]
    }
}
