//! C14 — lexical conformance against RefLexer.
use serde_json::json;
use syntax::lexer::Lexer;
use syntax::token_kind::TokenKind;
use syntax::token_stream::TokenStream;

use crate::fw::*;
use crate::gen::tok::{KEYWORDS, PUNCT, REF_BANG_OPERATORS};
use crate::refm::lexer::{ref_lex, RefKind};

pub struct C14;

pub fn impl_lex(text: &str) -> (Vec<(TokenKind, usize, usize)>, Vec<String>) {
    let mut lx = Lexer::new(text);
    let mut toks = Vec::new();
    let mut errors = Vec::new();
    loop {
        let start = lx.cursor();
        let k = lx.eat();
        let end = lx.cursor();
        if let Some(e) = lx.take_error() {
            errors.push(format!("{e} at {start}..{end}"));
        }
        if k == TokenKind::Eof {
            break;
        }
        if end == start {
            errors.push(format!("zero-width token {k:?} at {start}"));
            break;
        }
        toks.push((k, start, end));
    }
    (toks, errors)
}

fn kind_alone(lexeme: &str) -> Option<TokenKind> {
    let (t, e) = impl_lex(lexeme);
    if t.len() == 1 && e.is_empty() && t[0].1 == 0 && t[0].2 == lexeme.len() {
        Some(t[0].0)
    } else {
        None
    }
}

// ---- instance generators ----------------------------------------------------------------

fn ident(rng: &mut Rng) -> (String, &'static str) {
    const FIRST: &[u8] = b"abcdefghijklmnopqrstuvwxyzABCDEFGHIJKLMNOPQRSTUVWXYZ_";
    const REST: &[u8] = b"abcdefghijklmnopqrstuvwxyzABCDEFGHIJKLMNOPQRSTUVWXYZ_0123456789";
    match rng.below(10) {
        0 | 1 => {
            // digit-leading identifier; first letter outside [a-fA-FxXbB] keeps clear of the
            // number-like corner cases of LLVM's own lexer
            // any letter may follow the digits; only <digits>b[01]… and <digits>x<hexdigit>… are left
            // out: LLVM's own lexer reads those as (malformed) numbers, the reference as identifiers
            loop {
                let mut s = String::new();
                for _ in 0..1 + rng.below(3) {
                    s.push((b'0' + rng.below(10) as u8) as char);
                }
                s.push(FIRST[rng.below(FIRST.len())] as char);
                for _ in 0..rng.below(4) {
                    s.push(REST[rng.below(REST.len())] as char);
                }
                if !number_like_corner(&s) {
                    return (s, "id-digit-leading");
                }
            }
        }
        2 => {
            // keyword as a prefix / with a suffix
            let k = KEYWORDS[rng.below(KEYWORDS.len())];
            let s = match rng.below(3) {
                0 => format!("{k}y"),
                1 => format!("{k}_"),
                _ => format!("{k}{}", rng.below(10)),
            };
            (s, "id-keyword-prefix")
        }
        _ => loop {
            let mut s = String::new();
            s.push(FIRST[rng.below(FIRST.len())] as char);
            for _ in 0..rng.below(9) {
                s.push(REST[rng.below(REST.len())] as char);
            }
            if !KEYWORDS.contains(&s.as_str()) {
                return (s, "id");
            }
        },
    }
}

/// `<digits>b[01]…` / `<digits>x<hexdigit>…` that is not a well-formed 0b/0x literal
pub fn number_like_corner(w: &str) -> bool {
    let b = w.as_bytes();
    let k = b.iter().take_while(|c| c.is_ascii_digit()).count();
    if k == 0 || k + 1 >= b.len() {
        return false;
    }
    match (b[k], b[k + 1]) {
        (b'b', b'0' | b'1') => true,
        (b'x', c) if c.is_ascii_hexdigit() => true,
        _ => false,
    }
}

fn integer(rng: &mut Rng) -> (String, &'static str) {
    match rng.below(8) {
        0 => {
            let mut s = String::from("0x");
            for _ in 0..1 + rng.below(16) {
                s.push(b"0123456789abcdefABCDEF"[rng.below(22)] as char);
            }
            (s, "int-hex")
        }
        1 => {
            let mut s = String::from("0b");
            for _ in 0..1 + rng.below(64) {
                s.push(if rng.chance(1, 2) { '0' } else { '1' });
            }
            (s, "int-bin")
        }
        // (decimal literals up to 2^64-1 are numbers, for llvm-tblgen too; what lies beyond is not asserted)
        2 => (["9223372036854775807", "-9223372036854775808", "+9223372036854775807", "0", "-0", "+0", "007", "9223372036854775808", "18446744073709551615", "+18446744073709551615", "10000000000000000000"][rng.below(11)].to_string(), "int-boundary"),
        _ => {
            let mut s = String::new();
            match rng.below(4) {
                0 => s.push('-'),
                1 => s.push('+'),
                _ => {}
            }
            for _ in 0..1 + rng.below(17) {
                s.push((b'0' + rng.below(10) as u8) as char);
            }
            (s, "int-dec")
        }
    }
}

fn string_lit(rng: &mut Rng) -> (String, &'static str) {
    let mut s = String::from("\"");
    let mut class = "str";
    let n = rng.below(10);
    for _ in 0..n {
        match rng.below(12) {
            0 => s.push_str("\\\\"),
            1 => s.push_str("\\\""),
            2 => s.push_str("\\n"),
            3 => s.push_str("\\t"),
            4 => s.push_str("\\'"),
            5 => s.push_str(["é", "€", "😀"][rng.below(3)]),
            6 => s.push_str(["//", "/*", "*/", "[{", "}]", "#ifdef", "!add", "$x"][rng.below(8)]),
            _ => {
                let c = (b' ' + rng.below(95) as u8) as char;
                if c != '"' && c != '\\' {
                    s.push(c);
                }
            }
        }
    }
    match rng.below(6) {
        0 => {
            s.push_str("\\\\");
            class = "str-ends-with-escaped-backslash";
        }
        1 => {
            s.push_str("\\\"");
            s.push('x');
            class = "str-escaped-quote-near-end";
        }
        _ => {}
    }
    s.push('"');
    (s, class)
}

fn code(rng: &mut Rng) -> (String, &'static str) {
    let mut s = String::from("[{");
    for _ in 0..rng.below(8) {
        s.push_str([" ", "x", "}", "]", "{", "[", "\n", "return 1;", "\"", "//", "/*", "} ]", "é"][rng.below(13)]);
    }
    // must not contain "}]" early
    let body = s[2..].replace("}]", "} ]");
    (format!("[{{{body}}}]"), "code")
}

fn instance(rng: &mut Rng) -> (String, &'static str) {
    match rng.weighted(&[6, 5, 4, 2, 2, 4, 4, 5]) {
        0 => ident(rng),
        1 => integer(rng),
        2 => string_lit(rng),
        3 => code(rng),
        4 => {
            let (i, _) = ident(rng);
            let i = i.trim_start_matches(|c: char| c.is_ascii_digit()).to_string();
            (format!("${}", if i.is_empty() { "v".to_string() } else { i }), "var")
        }
        5 => (KEYWORDS[rng.below(KEYWORDS.len())].to_string(), "keyword"),
        6 => (format!("!{}", REF_BANG_OPERATORS[rng.below(REF_BANG_OPERATORS.len())]), "bang"),
        _ => (PUNCT[rng.below(PUNCT.len())].to_string(), "punct"),
    }
}

fn separator(rng: &mut Rng) -> (String, &'static str) {
    match rng.below(15) {
        0 | 1 | 2 => (" ".into(), "sp"),
        3 => ("\t".into(), "sp"),
        4 => ("\n".into(), "sp"),
        5 => ("\r\n".into(), "sp"),
        6 => (["  \n  ", "\r", " \r "][rng.below(3)].into(), "sp"),
        // (a line comment ends at LF, CRLF and at a CR that stands alone)
        7 => ([" // comment \"x\" /* y\n", " // see the café example — 日本語 😀\n", "// é\r\n", "// mac\r", " // a\r\r\n"][rng.below(5)].into(), "line-comment"),
        8 => (["/* c */", "/** doc **/", "/***/", "/* a **/", "/*****/", "/**/"][rng.below(6)].into(), "block-comment"),
        9 => ("/* a\n * b */ ".into(), "block-comment"),
        10 => ("/* a /* b */ c */".into(), "nested-block-comment"),
        11 => ("/* /* /* */ */ x */ ".into(), "nested-block-comment"),
        12 => {
            // a random body over the comment delimiters' own characters, closed as deep as it got open
            // (kept only if the reference reads the whole thing as one comment)
            let mut body = String::from("/*");
            for _ in 0..rng.below(10) {
                body.push_str(["/", "*", " ", "a", "/*", "*/", "/*/", "**", "//", "\n"][rng.below(10)]);
            }
            for closers in 0..12 {
                let probe = format!("{body}x");
                let r = ref_lex(&probe);
                if r.len() == 1 && r[0].start == body.len() && r[0].end == probe.len() && r[0].kind == RefKind::Id {
                    return (body, "random-nested-block-comment");
                }
                let _ = closers;
                body.push_str(" */");
            }
            ("/* c */".into(), "block-comment")
        }
        _ => ("".into(), "none"),
    }
}

fn gen_case(rng: &mut Rng, known: &Known) -> Case {
    let n = 1 + rng.below(12);
    let mut text = String::new();
    let mut toks: Vec<serde_json::Value> = Vec::new();
    let mut excluded = 0;
    let mut after_paste = false;
    for i in 0..n {
        let (mut lex, mut class) = instance(rng);
        // a paste operator is often followed at once by an identifier that begins like a directive
        // word (`NAME#else2`, `x#define_`, `x#endifs`): one identifier, not a directive
        let glued = after_paste && rng.chance(1, 2);
        if glued {
            let w = ["ifdef", "ifndef", "else", "endif", "define"][rng.below(5)];
            lex = match rng.below(4) {
                0 => format!("{w}{}", rng.below(10)),
                1 => format!("{w}_"),
                2 => format!("{w}_{}", ident(rng).0),
                _ => format!("{w}s"),
            };
            class = "id-directive-prefix";
        }
        after_paste = lex == "#";
        // exclusion by construction of input classes with a listed (known) finding
        let mut guard = 0;
        while known.has(&format!("C14.mismatch:{class}")) && guard < 20 {
            let x = instance(rng);
            lex = x.0;
            class = x.1;
            guard += 1;
            excluded += 1;
        }
        if i > 0 {
            let (mut sep, mut sclass) = separator(rng);
            let mut guard = 0;
            while known.has(&format!("C14.mismatch:{sclass}")) && guard < 20 {
                let x = separator(rng);
                sep = x.0;
                sclass = x.1;
                guard += 1;
                excluded += 1;
            }
            if glued {
                sep = "".into();
                sclass = "none";
            }
            if sclass == "none" {
                // only where the reference split is unchanged
                let prev_start = toks.last().and_then(|t: &serde_json::Value| t["start"].as_u64()).unwrap_or(0) as usize;
                let joined = format!("{}{}", &text[prev_start..], lex);
                let r = ref_lex(&joined);
                let ok = r.len() == 2 && r[0].end == text.len() - prev_start && r[1].end == joined.len() && !matches!(r[0].kind, RefKind::Invalid(_)) && !matches!(r[1].kind, RefKind::Invalid(_));
                if !ok {
                    sep = " ".into();
                    sclass = "sp";
                }
            }
            text.push_str(&sep);
            if let Some(l) = toks.last_mut() {
                l["sep_after"] = json!(sclass);
            }
        }
        let start = text.len();
        text.push_str(&lex);
        toks.push(json!({"class": class, "start": start, "end": text.len()}));
    }
    // now and then something follows the last token: a comment that ends with the input (no line break
    // behind it), blanks, a line comment without its line break
    match rng.below(8) {
        0 => text.push_str(["/* done */", "/* a /* b */ c */", "/**/", "/** x **/"][rng.below(4)]),
        1 => text.push_str(" // trailing"),
        2 => text.push_str([" ", "\n", "\t", "\r\n"][rng.below(4)]),
        _ => {}
    }
    json!({"kind": "lex", "text": text, "tokens": toks, "excluded": excluded})
}

fn class_ok(class: &str, lexeme: &str, kind: TokenKind) -> bool {
    match class {
        c if c.starts_with("id") => kind == TokenKind::Id,
        c if c.starts_with("int") => matches!(kind, TokenKind::IntVal | TokenKind::BinaryIntVal),
        c if c.starts_with("str") => kind == TokenKind::StrVal,
        "code" => kind == TokenKind::CodeFragment,
        "var" => kind == TokenKind::VarName,
        "keyword" => kind != TokenKind::Id && kind != TokenKind::Error && !kind.is_trivia() && Some(kind) == kind_alone(lexeme),
        "bang" => (kind.is_bang_operator() || kind.is_cond_operator()) && Some(kind) == kind_alone(lexeme),
        "punct" => kind != TokenKind::Id && kind != TokenKind::Error && !kind.is_trivia() && Some(kind) == kind_alone(lexeme),
        _ => false,
    }
}

impl Property for C14 {
    fn id(&self) -> &'static str {
        "C14"
    }
    fn rule(&self) -> String {
        "sequences of 1..12 spec-level token instances (identifiers incl. digit-leading and keyword-prefixed, signed decimal/hex/binary integers incl. i64 boundaries, strings with the five escapes and boundary cases, code fragments, $names, all 25 keywords, all 52 reference bang operators, all 18 punctuation marks) joined by spaces/tabs/LF/CRLF/line comments/block comments/nested block comments (fixed shapes and random bodies over '/', '*', '/*', '*/', '/*/' closed as deep as they got open) or nothing (only where RefLexer's split is unchanged). Oracle: the implementation's non-trivia tokens have exactly the generated boundaries, a kind in the class's allowed set (keywords/operators/punctuation: not Id/Error, equal to the kind of the lexeme alone), and no lexical error; plus an exhaustive table family (every keyword/operator/punctuation alone: pairwise distinct kinds). distinct = digest; non-trivial = >=3 tokens of >=3 classes, or a boundary-case instance".into()
    }
    fn assumptions(&self) -> Vec<String> {
        vec!["RefLexer written from the TableGen Programmer's Reference is the oracle for token boundaries; digit-leading identifiers avoid [a-fxb] as first letter (LLVM's own number/identifier heuristics differ from the reference there)".into()]
    }
    fn families(&self, ctx: &Ctx) -> Vec<Family> {
        let known = ctx.known.clone();
        vec![
            Family::new("vocabulary-table", 1, |_c, _r, emit| {
                emit(json!({"kind": "lex-table"}));
            })
            .exhaustive(),
            // whole programs and real files: the same differential on raw text
            Family::new("programs-raw", ctx.tier.pick(100, 2000), |_c, rng, emit| {
                for _ in 0..50 {
                    let text = match rng.below(4) {
                        0 => crate::gen::sem::program(rng, crate::gen::sem::Opts::Clean).files[0].1.clone(),
                        _ => crate::gen::gram::program(rng, crate::gen::gram::GramOpts { budget: 80, ..Default::default() }).1,
                    };
                    if !emit(json!({"kind": "lex-raw", "text": text})) {
                        return;
                    }
                }
            }),
            Family::new("files-raw", 1, |_c, _r, emit| {
                for (_, text) in crate::gen::corpus::llvm().iter().chain(crate::gen::corpus::seeds().iter()) {
                    if !emit(json!({"kind": "lex-raw", "text": text})) {
                        return;
                    }
                }
            })
            .exhaustive(),
            Family::new("sequences", ctx.tier.pick(1000, 40000), move |_c, rng, emit| {
                for _ in 0..500 {
                    if !emit(gen_case(rng, &known)) {
                        return;
                    }
                }
            }),
        ]
    }
    fn run_case(&self, _ctx: &Ctx, case: &Case) -> Verdict {
        if case["kind"] == "lex-raw" {
            let Some(text) = case["text"].as_str() else { return Verdict::Skip("malformed-case") };
            return match differential_raw(text) {
                Ok(true) => Verdict::Pass { nontrivial: true, labels: vec!["raw-asserted"] },
                Ok(false) => Verdict::Pass { nontrivial: false, labels: vec!["raw-not-asserted (reference rejects or is silent)"] },
                Err(f) => Verdict::Fail(f),
            };
        }
        if case["kind"] == "lex-table" {
            let mut seen: std::collections::HashMap<TokenKind, String> = std::collections::HashMap::new();
            let mut all: Vec<String> = KEYWORDS.iter().map(|s| s.to_string()).collect();
            all.extend(PUNCT.iter().map(|s| s.to_string()));
            all.extend(REF_BANG_OPERATORS.iter().map(|s| format!("!{s}")));
            for w in all {
                let class = if w.starts_with('!') { "bang" } else if KEYWORDS.contains(&w.as_str()) { "keyword" } else { "punct" };
                let Some(k) = kind_alone(&w) else {
                    return Verdict::Fail(Failure::new("C14.table", format!("C14.table:{w}"), format!("{w:?} does not lex to exactly one token without error")));
                };
                if !class_ok(class, &w, k) {
                    return Verdict::Fail(Failure::new("C14.table", format!("C14.table:{w}"), format!("{w:?} lexes to {k:?}")));
                }
                if let Some(prev) = seen.insert(k, w.clone()) {
                    return Verdict::Fail(Failure::new("C14.table", format!("C14.table:{w}"), format!("{w:?} and {prev:?} share kind {k:?}")));
                }
            }
            return Verdict::pass(true);
        }
        let (Some(text), Some(tokens)) = (case["text"].as_str(), case["tokens"].as_array()) else {
            return Verdict::Skip("malformed-case");
        };
        // the expected token list must be what RefLexer says (guards shrunk/edited cases)
        let r = ref_lex(text);
        if r.len() != tokens.len()
            || r.iter().zip(tokens).any(|(a, b)| Some(a.start as u64) != b["start"].as_u64() || Some(a.end as u64) != b["end"].as_u64() || matches!(a.kind, RefKind::Invalid(_)))
        {
            return Verdict::Skip("reference-split-differs-from-case");
        }
        let (got, errors) = impl_lex(text);
        let got: Vec<_> = got.into_iter().filter(|(k, _, _)| !k.is_trivia()).collect();
        let mut classes = std::collections::BTreeSet::new();
        let mut boundary = false;
        for (i, t) in tokens.iter().enumerate() {
            let class = t["class"].as_str().unwrap_or("");
            let (s, e) = (t["start"].as_u64().unwrap_or(0) as usize, t["end"].as_u64().unwrap_or(0) as usize);
            let sep_before = if i > 0 { tokens[i - 1]["sep_after"].as_str().unwrap_or("") } else { "" };
            classes.insert(class.split('-').next().unwrap_or(class).to_string());
            if class.contains('-') {
                boundary = true;
            }
            let blame = |what: &str| {
                // narrowest root-cause class: the separator kind when it is a comment form, else the token class
                let cause = if sep_before == "nested-block-comment" && got.get(i).map(|g| g.1 != s).unwrap_or(true) { sep_before } else { class };
                Failure::new("C14.mismatch", format!("C14.mismatch:{cause}"), format!("token #{i} {:?} (class {class}, after separator {sep_before:?}): {what}; text {:?}", text.get(s..e).unwrap_or("?"), text.chars().take(120).collect::<String>()))
            };
            let Some(&(k, gs, ge)) = got.get(i) else {
                return Verdict::Fail(blame(&format!("implementation produced only {} tokens; errors {errors:?}", got.len())));
            };
            if (gs, ge) != (s, e) {
                return Verdict::Fail(blame(&format!("implementation token {k:?} spans {gs}..{ge}, expected {s}..{e}; errors {errors:?}")));
            }
            if !class_ok(class, &text[s..e], k) {
                return Verdict::Fail(blame(&format!("implementation kind {k:?}; errors {errors:?}")));
            }
        }
        if got.len() != tokens.len() {
            let class = "trailing";
            return Verdict::Fail(Failure::new("C14.mismatch", format!("C14.mismatch:{class}"), format!("{} extra tokens; errors {errors:?}", got.len() - tokens.len())));
        }
        if !errors.is_empty() {
            let last_sep = tokens.iter().filter_map(|t| t["sep_after"].as_str()).find(|s| *s == "nested-block-comment").unwrap_or("lexical-error");
            return Verdict::Fail(Failure::new("C14.error", format!("C14.mismatch:{last_sep}"), format!("lexical errors on valid input: {errors:?}")));
        }
        Verdict::pass((tokens.len() >= 3 && classes.len() >= 3) || boundary)
    }
    fn shrink_keep(&self) -> &'static [&'static str] {
        // a lex case is self-describing (text + expected boundaries): only drop nothing; the
        // generic shrinker would desynchronise the two, so keep everything
        &["kind", "text", "tokens", "class", "sep_after", "excluded"]
    }
}

/// Differential on raw text (fuzz target): asserted only where the reference lexer accepts the
/// whole text and no word falls into the corner where the reference is ambiguous.
pub fn differential_raw(text: &str) -> Result<bool, Failure> {
    let r = ref_lex(text);
    if r.iter().any(|t| matches!(t.kind, RefKind::Invalid(_))) {
        return Ok(false);
    }
    // digit-leading words that are not integers: LLVM's own number/identifier heuristic applies
    // when the first letter is x, b or a hex digit; the reference says nothing about it
    for t in &r {
        let w = &text[t.start..t.end];
        let b = w.as_bytes();
        if b[0].is_ascii_digit() && t.kind == RefKind::Id && number_like_corner(w) {
            return Ok(false);
        }
        if matches!(t.kind, RefKind::Int | RefKind::BinInt) {
            // out-of-range literals are the implementation's right to reject
            if crate::props::c14::out_of_range(w) {
                return Ok(false);
            }
        }
    }
    let (got, errors) = impl_lex(text);
    let got: Vec<_> = got.into_iter().filter(|(k, _, _)| !k.is_trivia()).collect();
    if !errors.is_empty() {
        return Err(Failure::plain("C14.raw-error", format!("lexical errors {errors:?} on reference-valid text {text:?}")));
    }
    if got.len() != r.len() {
        return Err(Failure::plain("C14.raw-count", format!("{} tokens vs reference {} on {text:?}", got.len(), r.len())));
    }
    for (g, t) in got.iter().zip(&r) {
        if (g.1, g.2) != (t.start, t.end) {
            return Err(Failure::plain("C14.raw-boundary", format!("token {:?} {}..{} vs reference {}..{} on {text:?}", g.0, g.1, g.2, t.start, t.end)));
        }
        let ok = match &t.kind {
            RefKind::Id => g.0 == TokenKind::Id,
            RefKind::Int | RefKind::BinInt => matches!(g.0, TokenKind::IntVal | TokenKind::BinaryIntVal),
            RefKind::Str => g.0 == TokenKind::StrVal,
            RefKind::Code => g.0 == TokenKind::CodeFragment,
            RefKind::Var => g.0 == TokenKind::VarName,
            RefKind::Keyword(_) | RefKind::Punct(_) => g.0 != TokenKind::Id && g.0 != TokenKind::Error,
            RefKind::Bang(_) => g.0.is_bang_operator() || g.0.is_cond_operator(),
            RefKind::Directive(_) => g.0 != TokenKind::Id && g.0 != TokenKind::Error && !g.0.is_trivia(),
            _ => true,
        };
        if !ok {
            return Err(Failure::plain("C14.raw-kind", format!("token {:?} at {}..{} for reference {:?} on {text:?}", g.0, g.1, g.2, t.kind)));
        }
    }
    Ok(true)
}

pub fn out_of_range(w: &str) -> bool {
    if let Some(h) = w.strip_prefix("0x") {
        return h.trim_start_matches('0').len() > 16;
    }
    if let Some(b) = w.strip_prefix("0b") {
        return b.trim_start_matches('0').len() > 64;
    }
    let neg = w.starts_with('-');
    let digits = w.trim_start_matches(['-', '+']).trim_start_matches('0');
    if digits.len() > 20 || (digits.len() == 20 && (neg || digits > "18446744073709551615")) {
        return true;
    }
    if digits.len() == 19 {
        let v: u128 = digits.parse().unwrap_or(u128::MAX);
        return neg && v > 9223372036854775808;
    }
    false
}
