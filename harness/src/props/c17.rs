//! C17 — range validity of every analysis result.
use std::cell::RefCell;
use std::collections::HashMap;

use ide::file_system::FileId;

use super::{wsq, wsspace};
use crate::fw::*;
use crate::gen::mutate;
use crate::ws::{case_files, ws_case, Workspace};

pub struct C17;

impl Property for C17 {
    fn id(&self) -> &'static str {
        "C17"
    }
    fn rule(&self) -> String {
        "C03's workspaces, each also in variants with non-ASCII text injected (anywhere, incl. next to identifiers, in comments and strings), CRLF line ends, and files cut inside a token; every TextRange/TextSize of every result of every query (diagnostic locations, symbols and children recursively, folding ranges, link ranges and targets, hint positions, definition and reference locations) must name a workspace file (a key of diagnostics()) and satisfy start <= end <= len(text(file)) on char boundaries. distinct = digest of workspace; non-trivial = (>=2 files or non-ASCII content) and >=10 ranges checked".into()
    }
    fn assumptions(&self) -> Vec<String> {
        vec!["the workspace is identified with the key set of Analysis::diagnostics()".into()]
    }
    fn families(&self, ctx: &Ctx) -> Vec<Family> {
        // wrap every family of the shared space: each case is emitted as is and in two variants
        wsspace::families(ctx)
            .into_iter()
            .map(|f| {
                let name = f.name.clone();
                let inner = f.gen;
                let big = name == "llvm-corpus";
                Family {
                    name,
                    chunks: f.chunks,
                    exhaustive: false,
                    gen: Box::new(move |chunk, rng, emit| {
                        let mut vrng = Rng::new(chunk ^ 0xC17);
                        inner(chunk, rng, &mut |case: Case| {
                            if !emit(case.clone()) {
                                return false;
                            }
                            if big {
                                return true;
                            }
                            let Some((files, root)) = case_files(&case) else { return true };
                            let v1: Vec<(String, String)> =
                                files.iter().map(|(p, t)| (p.clone(), mutate::insert_non_ascii(t, &mut vrng, 3))).collect();
                            if !emit(ws_case(&v1, &root)) {
                                return false;
                            }
                            let v2: Vec<(String, String)> = files
                                .iter()
                                .map(|(p, t)| {
                                    let t = mutate::to_crlf(&mutate::insert_non_ascii(t, &mut vrng, 1));
                                    (p.clone(), if vrng.chance(1, 3) { mutate::prefix_at(&t, &mut vrng) } else { t })
                                })
                                .collect();
                            emit(ws_case(&v2, &root))
                        })
                    }),
                }
            })
            .collect()
    }
    fn run_case(&self, _ctx: &Ctx, case: &Case) -> Verdict {
        let Some((files, root)) = case_files(case) else { return Verdict::Skip("malformed-case") };
        let total: usize = files.iter().map(|f| f.1.len()).sum();
        wsq::budgets_on(total);
        let ws = Workspace::new(&files, &root);
        let a = ws.analysis();
        let wsfiles: Vec<FileId> = ws.workspace_files(&a);
        let texts: HashMap<FileId, String> = wsfiles.iter().filter_map(|f| Some((*f, ws.text_of(*f)?.clone()))).collect();
        let bad: RefCell<Option<Failure>> = RefCell::new(None);
        let nranges = RefCell::new(0usize);
        let mut rng = Rng::new(digest(case));
        let r = wsq::sweep(&ws, &a, &mut rng, 200, &mut |kind, file, s, e| {
            *nranges.borrow_mut() += 1;
            if bad.borrow().is_some() {
                return;
            }
            let path = ws.fs.path_of(file).unwrap_or_else(|| format!("{file:?}"));
            let Some(text) = texts.get(&file) else {
                *bad.borrow_mut() = Some(Failure::new("C17.file-not-in-workspace", format!("C17.file-not-in-workspace:{kind}"), format!("{kind} names {path}, which is not a file of the workspace")));
                return;
            };
            if s > e || e > text.len() || !text.is_char_boundary(s) || !text.is_char_boundary(e) {
                *bad.borrow_mut() = Some(Failure::new("C17.range", format!("C17.range:{kind}"), format!("{kind} range {s}..{e} in {path} (len {}): not inside the text on char boundaries", text.len())));
            }
        });
        wsq::budgets_off();
        if let Some(f) = bad.into_inner() {
            return Verdict::Fail(f);
        }
        match r {
            Ok(st) => {
                let non_ascii = files.iter().any(|f| !f.1.is_ascii());
                Verdict::Pass { nontrivial: (st.files >= 2 || non_ascii) && nranges.into_inner() >= 10, labels: vec![if non_ascii { "non-ascii" } else { "ascii" }] }
            }
            Err(f) => Verdict::Fail(f),
        }
    }
    fn shrink_keep(&self) -> &'static [&'static str] {
        &["kind", "root"]
    }
}
