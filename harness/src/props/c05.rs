//! C05 — name resolution follows TableGen scoping (expected map known by construction).
use std::collections::BTreeSet;

use ide::file_system::FileId;

use super::semcase::{program_of, sem_case, show, workspace_of};
use crate::fw::*;
use crate::gen::sem::{DeclKind, Role};
use crate::ws::{pos, r2};

pub struct C05;

impl Property for C05 {
    fn id(&self) -> &'static str {
        "C05"
    }
    fn rule(&self) -> String {
        "SEM programs (root + 0..2 headers): classes with template arguments (defaults may use earlier ones), typed fields, inheritance with positional arguments, let overrides, defs (named, pasted names inside foreach, in defsets, in multiclasses), defvar at top level / in bodies / in blocks, foreach (list, range, bit-range forms), if/else, top-level let, defset, multiclass with and without template arguments, defm, assert, dump, !foreach/!filter bound variables, field access `d.f`, dag operators, anonymous records K<..>; shadowing of outer variables; plus use-after-scope probes. Oracle (by construction): goto_definition at every offset of every declaring identifier = itself, of every use = its declaration (for a field overridden by `let` somewhere: the declaration or one of its override identifiers), references(declaration) == set of its uses (not asserted for overridden fields), a use after the declaring construct ended resolves to nothing and has a diagnostic covering it. distinct = (seed, n); non-trivial = >=3 nested scopes, a shadowed name or cross-file use, and >=1 probe".into()
    }
    fn assumptions(&self) -> Vec<String> {
        vec!["the generator's scoping rules were audited against llvm-tblgen-14 (800 clean programs accepted modulo LLVM-14-unknown operators/dump; probes rejected with 'Variable not defined')".into()]
    }
    fn families(&self, ctx: &Ctx) -> Vec<Family> {
        vec![Family::new("sem-programs", ctx.tier.pick(500, 80000), |_c, rng, emit| {
            for _ in 0..50 {
                if !emit(sem_case(rng, true)) {
                    return;
                }
            }
        })]
    }
    fn run_case(&self, ctx: &Ctx, case: &Case) -> Verdict {
        if case["kind"] == "manual" {
            return super::semcase::manual(case, "C05");
        }
        let Some(p) = program_of(case) else { return Verdict::Skip("malformed-case") };
        let ws = workspace_of(&p);
        let a = ws.analysis();
        let fid = |i: usize| -> Option<FileId> { ws.fs.id_of(&crate::ws::abs(&p.files[i].0)) };
        let diags = a.diagnostics();
        let text_at = |file: usize, r: (usize, usize)| p.files[file].1[r.0..r.1].to_string();
        let fail = |oracle: &str, sig: String, detail: String| Verdict::Fail(Failure::new(oracle, sig, format!("{detail}\n{}", show(&p))));
        let kind_name = |k: DeclKind| format!("{k:?}");
        for occ in &p.occs {
            let Some(f) = fid(occ.file) else { return Verdict::Skip("file-not-in-workspace") };
            let word = text_at(occ.file, occ.range);
            let here = format!("{}:{}..{} {:?}", p.files[occ.file].0, occ.range.0, occ.range.1, word);
            for o in [occ.range.0, (occ.range.0 + occ.range.1) / 2, occ.range.1 - 1] {
                let got = a.goto_definition(pos(f, o)).map(|t| (t.file, r2(t.range)));
                match &occ.role {
                    Role::Decl(d) => {
                        let dd = &p.decls[*d];
                        let want = Some((f, dd.range));
                        if got != want {
                            return fail("C05.declaration", format!("C05.declaration:{}", kind_name(dd.kind)), format!("goto_definition on declaring identifier {here} ({:?}) gives {got:?}", dd.kind));
                        }
                    }
                    Role::Use(d) | Role::Override(d) => {
                        let dd = &p.decls[*d];
                        let Some(df) = fid(dd.file) else { return Verdict::Skip("file-not-in-workspace") };
                        let mut allowed = vec![(df, dd.range)];
                        if dd.kind == DeclKind::Field && (dd.overridden || matches!(occ.role, Role::Override(_))) {
                            for o2 in &p.occs {
                                if o2.role == Role::Override(*d) {
                                    if let Some(f2) = fid(o2.file) {
                                        allowed.push((f2, o2.range));
                                    }
                                }
                            }
                        }
                        if !got.map(|g| allowed.contains(&g)).unwrap_or(false) {
                            return fail("C05.use", format!("C05.use:{}", kind_name(dd.kind)), format!("goto_definition on use {here} of {:?} {:?} gives {got:?}, expected {:?}", dd.kind, dd.name, allowed[0]));
                        }
                    }
                    Role::UseAfterScope(d) => {
                        let dd = &p.decls[*d];
                        if got.is_some() {
                            return fail("C05.after-scope-resolves", format!("C05.after-scope-resolves:{}", kind_name(dd.kind)), format!("{here} is used after the construct declaring {:?} {:?} has ended, but resolves to {got:?}", dd.kind, dd.name));
                        }
                        let covered = diags.get(&f).map(|v| v.iter().any(|x| r2(x.location.range).0 <= occ.range.0 && r2(x.location.range).1 >= occ.range.1)).unwrap_or(false);
                        if !covered {
                            return fail("C05.after-scope-not-reported", format!("C05.after-scope-not-reported:{}", kind_name(dd.kind)), format!("{here}: no diagnostic covers the out-of-scope use of {:?} {:?}", dd.kind, dd.name));
                        }
                    }
                }
            }
        }
        // references(declaration) == uses
        for d in &p.decls {
            if d.kind == DeclKind::Field && d.overridden {
                continue;
            }
            let Some(f) = fid(d.file) else { continue };
            let got: BTreeSet<(FileId, (usize, usize))> = a.references(pos(f, d.range.0)).unwrap_or_default().into_iter().map(|r| (r.file, r2(r.range))).collect();
            let want: BTreeSet<(FileId, (usize, usize))> = p
                .occs
                .iter()
                .filter(|o| matches!(&o.role, Role::Use(x) | Role::Override(x) if *x == d.id))
                .filter_map(|o| Some((fid(o.file)?, o.range)))
                .collect();
            if got != want {
                let missing: Vec<_> = want.difference(&got).collect();
                let extra: Vec<_> = got.difference(&want).collect();
                return fail("C05.references", format!("C05.references:{}", kind_name(d.kind)), format!("references of {:?} {:?} at {}:{:?}: missing {missing:?}, unexpected {extra:?}", d.kind, d.name, p.files[d.file].0, d.range));
            }
        }
        let _ = ctx;
        let ft = &p.feat;
        Verdict::Pass {
            nontrivial: ft.nested_scopes >= 3 && (ft.shadowing || ft.cross_file_use) && ft.after_scope_probes >= 1,
            labels: vec![if ft.multiclass_without_targs { "multiclass-without-targs" } else { "-" }],
        }
    }
    fn shrink_keep(&self) -> &'static [&'static str] {
        &["kind", "seed", "opts"]
    }
}

