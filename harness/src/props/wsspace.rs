//! Workspace exploration space shared by C03 / C06 / C17: cases are
//! `{"kind":"ws","root":<path>,"files":{<path>:<text>,…}}` (acyclic include graphs).
use crate::fw::{Case, Ctx, Family, Rng};
use crate::gen::gram::{self, GramOpts, Trivia};
use crate::gen::{corpus, mutate, tok};
use crate::ws::ws_case;

const NAMES: [&str; 4] = ["A", "B", "C", "D"];
const FIELDS: [&str; 3] = ["x", "y", "z"];
const VARS: [&str; 3] = ["v", "w", "i"];

fn nm(rng: &mut Rng) -> &'static str {
    NAMES[rng.below(NAMES.len())]
}
fn fd(rng: &mut Rng) -> &'static str {
    FIELDS[rng.below(FIELDS.len())]
}
fn vr(rng: &mut Rng) -> &'static str {
    VARS[rng.below(VARS.len())]
}

fn soup_type(rng: &mut Rng) -> String {
    match rng.below(8) {
        0 => "int".into(),
        1 => "string".into(),
        2 => "bit".into(),
        3 => "bits<4>".into(),
        4 => format!("list<{}>", nm(rng)),
        5 => "list<int>".into(),
        6 => "dag".into(),
        _ => nm(rng).into(),
    }
}

pub fn soup_value(rng: &mut Rng, depth: usize) -> String {
    let leaf = depth >= 3;
    match rng.below(if leaf { 8 } else { 26 }) {
        0 => rng.below(10).to_string(),
        1 => "\"s\"".into(),
        2 => nm(rng).into(),
        3 => fd(rng).into(),
        4 => vr(rng).into(),
        5 => "?".into(),
        6 => "true".into(),
        7 => "NAME".into(),
        8 => format!("{}.{}", soup_value(rng, depth + 1), fd(rng)),
        9 => format!("{}<{}>", nm(rng), soup_value(rng, depth + 1)),
        10 => format!("{}<{}>.{}", nm(rng), soup_value(rng, depth + 1), fd(rng)),
        11 => format!("!add({}, {})", soup_value(rng, depth + 1), soup_value(rng, depth + 1)),
        12 => format!("!foreach({}, {}, {})", vr(rng), soup_value(rng, depth + 1), soup_value(rng, depth + 1)),
        13 => format!("!filter({}, {}, {})", vr(rng), soup_value(rng, depth + 1), soup_value(rng, depth + 1)),
        14 => format!(
            "!foldl({}, {}, {}, {}, {})",
            soup_value(rng, depth + 1),
            soup_value(rng, depth + 1),
            vr(rng),
            vr(rng),
            soup_value(rng, depth + 1)
        ),
        15 => format!("!cast<{}>({})", soup_type(rng), soup_value(rng, depth + 1)),
        16 => format!("[{}, {}]", soup_value(rng, depth + 1), soup_value(rng, depth + 1)),
        17 => format!("({} {}:$a, $b)", nm(rng), soup_value(rng, depth + 1)),
        18 => format!("!if({}, {}, {})", soup_value(rng, depth + 1), soup_value(rng, depth + 1), soup_value(rng, depth + 1)),
        19 => format!("{}[{}]", soup_value(rng, depth + 1), rng.below(3)),
        20 => format!("{}{{{}}}", soup_value(rng, depth + 1), rng.below(3)),
        21 => format!("{} # {}", soup_value(rng, depth + 1), soup_value(rng, depth + 1)),
        22 => format!("!cond({}: {}, true: {})", soup_value(rng, depth + 1), soup_value(rng, depth + 1), soup_value(rng, depth + 1)),
        23 => format!("!{}({})", ["head", "tail", "size", "empty", "not", "isa<A>", "getdagop", "listflatten"][rng.below(8)], soup_value(rng, depth + 1)),
        24 if rng.chance(1, 3) => format!("{}<{} = {}>", nm(rng), name_string(rng), soup_value(rng, depth + 1)),
        24 => format!("{}<\"{}\" = {}>", nm(rng), fd(rng), soup_value(rng, depth + 1)),
        _ => "[]".into(),
    }
}

/// string literals whose text is needed by the analysis where they stand (names of defs and defms, names of
/// named arguments, include paths): escapes at the end and at the beginning, empty, non-ASCII, path-like
const NAME_STRINGS: [&str; 12] = ["\"\\\"\"", "\"x\\\"\"", "\"\\\\\"", "\"a\\\\\\\"\"", "\"\\t\\n\"", "\"\"", "\"é\"", "\"a b\"", "\"../root.td\"", "\"\\'\"", "\"\\\"\\\"\"", "\"_\\\"_\""];

fn name_string(rng: &mut Rng) -> &'static str {
    NAME_STRINGS[rng.below(NAME_STRINGS.len())]
}

fn soup_class_ref(rng: &mut Rng) -> String {
    match rng.below(4) {
        0 => nm(rng).to_string(),
        1 => format!("{}<{}>", nm(rng), soup_value(rng, 1)),
        2 => format!("{}<{}, {}>", nm(rng), soup_value(rng, 1), soup_value(rng, 1)),
        _ => format!("{}<>", nm(rng)),
    }
}

fn soup_parents(rng: &mut Rng) -> String {
    match rng.below(4) {
        0 => String::new(),
        1 | 2 => format!(" : {}", soup_class_ref(rng)),
        _ => format!(" : {}, {}", soup_class_ref(rng), soup_class_ref(rng)),
    }
}

fn soup_body(rng: &mut Rng) -> String {
    if rng.chance(1, 4) {
        return ";".into();
    }
    let mut s = String::from(" {\n");
    for _ in 0..rng.below(5) {
        match rng.below(6) {
            0 | 1 => s.push_str(&format!("  {} {} = {};\n", soup_type(rng), fd(rng), soup_value(rng, 0))),
            2 => s.push_str(&format!("  {} {};\n", soup_type(rng), fd(rng))),
            3 => s.push_str(&format!("  let {} = {};\n", fd(rng), soup_value(rng, 0))),
            4 => s.push_str(&format!("  defvar {} = {};\n", vr(rng), soup_value(rng, 0))),
            _ => s.push_str(&format!("  assert {}, \"m\";\n", soup_value(rng, 0))),
        }
    }
    s.push('}');
    s
}

pub fn soup_statement(rng: &mut Rng, depth: usize) -> String {
    let deep = depth >= 3;
    match rng.below(if deep { 6 } else { 14 }) {
        0 | 1 => {
            let targs = match rng.below(3) {
                0 => String::new(),
                1 => format!("<{} {}>", soup_type(rng), vr(rng)),
                _ => format!("<{} {}, {} {} = {}>", soup_type(rng), vr(rng), soup_type(rng), fd(rng), soup_value(rng, 1)),
            };
            format!("class {}{}{}{}", nm(rng), targs, soup_parents(rng), soup_body(rng))
        }
        2 | 3 => {
            let name = match rng.below(7) {
                0 => String::new(),
                1 => format!("{}#{}", nm(rng), vr(rng)),
                5 => name_string(rng).to_string(),
                6 => format!("{}#{}", if rng.chance(1, 2) { "NAME" } else { nm(rng) }, name_string(rng)),
                _ => nm(rng).to_string(),
            };
            format!("def {}{}{}", name, soup_parents(rng), soup_body(rng))
        }
        4 => format!("defvar {} = {};", vr(rng), soup_value(rng, 0)),
        5 => format!("defm {}{};", if rng.chance(1, 4) { "" } else if rng.chance(1, 5) { name_string(rng) } else { nm(rng) }, soup_parents(rng)),
        6 => {
            let targs = if rng.chance(1, 2) { format!("<{} {}>", soup_type(rng), vr(rng)) } else { String::new() };
            let mut s = format!("multiclass {}{}{} {{\n", nm(rng), targs, soup_parents(rng));
            for _ in 0..1 + rng.below(3) {
                let st = match rng.below(4) {
                    0 => format!("defm _{}{};", fd(rng), soup_parents(rng)),
                    1 => format!("defvar {} = {};", vr(rng), soup_value(rng, 1)),
                    2 if rng.chance(1, 3) => format!("def NAME#{}{}{}", name_string(rng), soup_parents(rng), soup_body(rng)),
                    _ => format!("def _{}{}{}", fd(rng), soup_parents(rng), soup_body(rng)),
                };
                s.push_str("  ");
                s.push_str(&st);
                s.push('\n');
            }
            s.push('}');
            s
        }
        7 => format!("defset {} {} = {{\n{}\n}}", soup_type(rng), nm(rng), soup_statement(rng, depth + 1)),
        8 => format!("foreach {} = {} in {{\n{}\n}}", vr(rng), soup_value(rng, 1), soup_statement(rng, depth + 1)),
        9 => format!("foreach {} = 0...3 in {}", vr(rng), soup_statement(rng, depth + 1)),
        10 => format!("let {} = {} in {{\n{}\n{}\n}}", fd(rng), soup_value(rng, 1), soup_statement(rng, depth + 1), soup_statement(rng, depth + 1)),
        11 => format!("if {} then {{\n{}\n}} else {{\n{}\n}}", soup_value(rng, 1), soup_statement(rng, depth + 1), soup_statement(rng, depth + 1)),
        12 => format!("assert {}, {};", soup_value(rng, 1), soup_value(rng, 1)),
        _ => format!("dump {};", soup_value(rng, 1)),
    }
}

/// "semantic soup": statements over a tiny name pool so that self/mutual references,
/// redefinitions, shadowing and use-before-declaration happen all the time.
pub fn soup_program(rng: &mut Rng, n: usize) -> String {
    let mut s = String::new();
    if rng.chance(1, 5) {
        s.push_str("// doc comment é\n");
    }
    for _ in 0..n {
        s.push_str(&soup_statement(rng, 0));
        s.push('\n');
    }
    s
}

pub const STRESS: [&str; 30] = [
    // string literals in the places where the analysis needs their text
    "class C<int a>;\nmulticlass M { def NAME#\"_\\\"\" : C<\"a\\\"\" = 1>; def \"\\\\\"; }\ndef \"x\\\"\" : C<\"\\\"\" = 1>;\ndefm \"y\\\"\" : M;\ndefm \"\\\"\" : M;\ninclude \"inc\\\"\"\ninclude \"\\\"\"\ndef \"\" : C<\"\" = 2>;",
    "class C<int a>;\ndef \"\\t\" : C<\"\\n\" = 1>;\ndef \"\\\\\" # \"\\\"\";\nforeach i = [\"\\\"\", \"\\\\\"] in def X#i#\"\\\"\" : C<1>;\ninclude \"\\\\\"",
    // records with composed names: defined by a defm, by a def with a pasted name, in a loop
    "class I;\nmulticlass M2 { def _q : I; }\nmulticlass M { def I : I; def \"\" : I; def NAME#\"_x\" : I; def NAME#\"_\"#NAME; defm _in : M2; defm NAME : M2; }\ndefm SLL : M;\ndef u { I a = SLLI; I b = SLL; I c = SLL_x; I d = SLL_in_q; I e = SLLnope; I f = SLL_q; I g = SLL_SLL; }",
    "class K;\nforeach i = 0-3 in def R#i : K;\ndef ADD#_rr : K;\ndef SUB#\"_rr\" : K;\ndefm LOAD#_acq : NoSuch;\ndef u { dag d = (ADD_rr R0, R3, SUB_rr, R9, Rx, R, ADD, LOAD_acq); K k = R1; int n = R2.x; }\ndef ADD_rr : K;\ndef v { K k = ADD_rr; }",
    "multiclass M<string tag> { def NAME#\"_\"#tag; def tag; def NAME; defm \"\" : M<tag>; }\ndefm P : M<\"x\">;\ndefm \"\" : M<\"y\">;\ndefm : M<\"z\">;\ndef q { int a = P_x; int b = P; int c = P_.f; int d = tag; int e = NAME; }",
    // extreme integers where widths and positions are computed
    "class X { bits<8> b; let b{0x8000000000000000-1} = 0; let b{9223372036854775807...0} = 1; let b{-9223372036854775808} = 0; let b{0-9223372036854775807} = 1; }\ndef x : X { let b{0xFFFFFFFFFFFFFFFF} = 1; bits<0xFFFFFFFF> w; int i = b{9223372036854775807-0}; }",
    "class L { list<int> l = [1, 2]; int a = l[0x8000000000000000]; list<int> s = l[9223372036854775807...0]; list<int> t = l[0-9223372036854775807, -9223372036854775808...-1]; }\ndef d : L { bits<64> w = 0x8000000000000000; bit c = w{0x7FFFFFFFFFFFFFFF}; }",
    "class B<bits<9223372036854775807> p = 0> { bits<0x8000000000000000> q; bits<18446744073709551615> r; list<bits<-1>> s; }\ndef b : B<0b1111111111111111111111111111111111111111111111111111111111111111111>;",
    "class A;\nclass B : A;\nclass A : B { int v = w; }\ndef d : A { let z = 1; }",
    "class Foo;\ndef d : Foo;\nclass Foo { int x = 1; }\ndef e : Foo { let x = 2; }\nclass Foo {}\nclass Foo<int a>;",
    "foreach = [1, 2] in def a;\ndefvar v = 1;\nforeach = [3] in { def b; }\ndefvar w = v;",
    "defset list<A> Outer = {\n  defset list<A> Inner = { def x : A; }\n  if true then { def y : A; }\n}\nclass A;",
    "defvar x = 1;\nclass C<int x = x> { int x = x; int y = x; defvar x = x; }\nforeach x = [x] in def d#x : C<x> { let x = x; }",
    "multiclass M { ; def _a;; }\ndefm m : M;",
    "class z<>;\ndef a { int x = !cond(); list<int> l = b[]; bits<2> c = d{}; }",
    "}\nclass A { int x; }\n}\ndef d : A;",
    "class A : A { let x = 1; }",
    "class A : A;\ndef d : A { int y = x; }",
    "class A<int a> : B<a>;\nclass B<int b> : A<b>;\ndef d : A<1>, B<2>;",
    "class A { int x = 1; }\nclass A { string x = \"s\"; }\ndef d : A { let x = 2; }\ndef d : A;",
    "class A { A self; int x = self.x; }\ndef a : A { let self = a; }",
    "def d { int x = x; let x = x; }",
    "multiclass M : M { def x; }\ndefm m : M, M;",
    "multiclass M<int a> { defm n : M<a>; }\ndefm : M<1>;",
    "defset list<A> A = { def A : A; }",
    "foreach i = i in def d#i;",
    "defvar v = v;\ndefvar v = !add(v, 1);",
    "class A<A a = a> : A<a>;",
    "class A { int x; }\ndef d : A { let x = !foreach(x, [1], x); }",
    "let x = 1 in class A { int x; }\ndef : A;\ndef : A;\ndefm : A;",
];

fn with_includes(rng: &mut Rng, root_text: String, make: &mut dyn FnMut(&mut Rng) -> String) -> Case {
    // root + 0..=3 included files; includes form a DAG (file k may include files > k)
    let k = rng.below(4);
    let names: Vec<String> = (0..k).map(|i| if i == 1 { format!("sub/inc{i}.td") } else { format!("inc{i}.td") }).collect();
    let mut files: Vec<(String, String)> = Vec::new();
    let mut root = String::new();
    for (i, n) in names.iter().enumerate() {
        if i == 0 || rng.chance(1, 2) {
            root.push_str(&format!("include \"{n}\"\n"));
        }
    }
    if rng.chance(1, 6) {
        root.push_str("include \"missing.td\"\n");
    }
    if rng.chance(1, 8) {
        root.push_str(&format!("include {}\n", name_string(rng)));
    }
    root.push_str(&root_text);
    // include statements nested in blocks (defset / let / foreach / if bodies)
    if !names.is_empty() && rng.chance(1, 4) {
        let n = &names[rng.below(names.len())];
        let nested = match rng.below(4) {
            0 => format!("\ndefset list<A> Nested = {{\n  include \"{n}\"\n  def after_inc : A;\n}}\n"),
            1 => format!("\nlet x = 1 in {{\n  include \"{n}\"\n}}\n"),
            2 => format!("\nforeach i = [1, 2] in {{\n  include \"{n}\"\n}}\n"),
            _ => format!("\nif 1 then {{\n  include \"{n}\"\n}} else {{\n  include \"{n}\"\n}}\n"),
        };
        root.push_str(&nested);
    }
    files.push(("root.td".into(), root));
    for (i, n) in names.iter().enumerate() {
        let mut t = String::new();
        for (j, m) in names.iter().enumerate() {
            if j > i && rng.chance(1, 3) {
                // resolved relative to the including file's directory, or via INCLUDE_DIR
                let rel = if n.starts_with("sub/") { format!("../{m}") } else { m.clone() };
                t.push_str(&format!("include \"{rel}\"\n"));
            }
        }
        t.push_str(&make(rng));
        files.push((n.clone(), t));
    }
    if rng.chance(1, 8) {
        files.push((format!("{}/viainc.td", crate::ws::INC_DIR), make(rng)));
        files[0].1 = format!("include \"viainc.td\"\n{}", files[0].1);
    }
    ws_case(&files, "root.td")
}

pub fn families(ctx: &Ctx) -> Vec<Family> {
    let tier = ctx.tier;
    let mut fams = Vec::new();

    fams.push(
        Family::new("stress-patterns", 1, |_c, _rng, emit| {
            for s in STRESS {
                if !emit(ws_case(&[("root.td".into(), s.to_string())], "root.td")) {
                    return;
                }
                // and as an included file
                let files = vec![("root.td".to_string(), "include \"inc.td\"\ndef zz;".to_string()), ("inc.td".to_string(), s.to_string())];
                if !emit(ws_case(&files, "root.td")) {
                    return;
                }
            }
        })
        .exhaustive(),
    );

    // shapes whose cost must not explode with their size: class lattices (two parents per level, every
    // level reaches the level below along 2^depth paths), long chains, wide parent lists
    fams.push(
        Family::new("scaling-shapes", 1, |_c, _rng, emit| {
            let mut shapes: Vec<String> = Vec::new();
            for depth in [6usize, 12, 20, 28, 40, 64] {
                let mut s = String::from("class L0a { int base = 0; }\nclass L0b { int other = 0; }\n");
                for i in 1..=depth {
                    s.push_str(&format!("class L{i}a : L{}a, L{}b;\nclass L{i}b : L{}a, L{}b {{ int f{i} = base; }}\n", i - 1, i - 1, i - 1, i - 1));
                }
                s.push_str(&format!("def bottom : L{depth}a {{ int v = nosuch; let other = 1; let missing = 2; L0a up = bottom; }}\ndefvar w = bottom.base;\ndef other_user : L{depth}b {{ L{depth}a x = bottom; }}\n"));
                shapes.push(s);
            }
            // a chain of 600 classes, the last one looks a name up that none of them has
            let mut chain = String::from("class C0 { int root = 1; }\n");
            for i in 1..600 {
                chain.push_str(&format!("class C{i} : C{};\n", i - 1));
            }
            chain.push_str("def end : C599 { int a = root; int b = nosuch; let root = 2; }\n");
            shapes.push(chain);
            // one record with 600 parents
            let mut wide = String::new();
            for i in 0..600 {
                wide.push_str(&format!("class W{i} {{ int w{i} = {i}; }}\n"));
            }
            wide.push_str("def all : ");
            wide.push_str(&(0..600).map(|i| format!("W{i}")).collect::<Vec<_>>().join(", "));
            wide.push_str(" { int s = w599; int t = nosuch; }\n");
            shapes.push(wide);
            // multiclasses whose records double with every line or level (the names are never written out):
            // a multiclass that instantiates what has been defined of itself so far, a chain of
            // multiclasses with two defms each, one prefix that matches in many ways, a chain of parents
            for n in [3usize, 8, 24, 48] {
                let mut s = String::from("multiclass M {\n  def a;\n");
                for i in 0..n {
                    s.push_str(&format!("  defm X{i} : M;\n"));
                }
                let longest: String = (0..n).rev().map(|i| format!("X{i}")).collect();
                s.push_str(&format!("}}\ndefm T : M;\ndef u {{ defvar q = [Ta, TX1X0a, T{longest}a, Tnosuch, TX0X0a, T]; string s = TX2a.x; }}\n"));
                shapes.push(s);
                let mut s = String::from("multiclass K0 {\n  def a;\n  def b;\n  foreach i = [1, 2] in def NAME#\"_\"#i;\n}\n");
                for i in 1..=n {
                    s.push_str(&format!("multiclass K{i} {{\n  defm l : K{};\n  defm r : K{};\n}}\n", i - 1, i - 1));
                }
                s.push_str(&format!("defm T : K{n};\ndef u {{ defvar q = [T{}a, T{}b, T{}c, T{}_1, T{}]; }}\n", "l".repeat(n), "lr".repeat(n / 2 + 1), "l".repeat(n), "r".repeat(n), "l".repeat(n + 1)));
                shapes.push(s);
                let mut s = String::from("multiclass A {\n  def a;\n");
                for _ in 0..n {
                    s.push_str("  defm A : A;\n  defm \"\" : A;\n  defm AA : A;\n");
                }
                s.push_str(&format!("}}\ndefm T : A;\ndef u {{ defvar q = [T{}a, T{}b, T{}]; }}\n", "A".repeat(2 * n), "A".repeat(2 * n), "A".repeat(2 * n)));
                shapes.push(s);
            }
            let mut parents = String::from("multiclass P0 { def r0; }\n");
            for i in 1..300 {
                parents.push_str(&format!("multiclass P{i} : P{} {{ def r{i}; }}\n", i - 1));
            }
            parents.push_str("multiclass Self : Self { def s; defm in : Self; }\ndefm T : P299, Self;\ndef u { defvar q = [Tr0, Tr299, Tr300, Ts, Tins, Tinins]; }\n");
            shapes.push(parents);
            // an include graph of stacked diamonds (40 levels, 121 files, 2^40 paths)
            let mut ladder: Vec<(String, String)> = Vec::new();
            for i in 0..=40 {
                let mut a = format!("class A{i};\n");
                if i < 40 {
                    a.push_str(&format!("include \"b{i}.td\"\ninclude \"c{i}.td\"\n"));
                    ladder.push((format!("b{i}.td"), format!("include \"a{}.td\"\ndef db{i} : A{};\n", i + 1, i + 1)));
                    ladder.push((format!("c{i}.td"), format!("include \"a{}.td\"\ndef dc{i} : A{};\n", i + 1, i + 1)));
                }
                ladder.push((if i == 0 { "root.td".to_string() } else { format!("a{i}.td") }, a));
            }
            let ladder: Vec<(String, String)> = ladder.into_iter().map(|(n, t)| (n, t.replace("\"a0.td\"", "\"root.td\""))).collect();
            if !emit(ws_case(&ladder, "root.td")) {
                return;
            }
            for s in shapes {
                if !emit(ws_case(&[("root.td".into(), s.clone())], "root.td")) {
                    return;
                }
                let files = vec![("root.td".to_string(), "include \"inc.td\"\ndef zz;".to_string()), ("inc.td".to_string(), s)];
                if !emit(ws_case(&files, "root.td")) {
                    return;
                }
            }
        })
        .exhaustive(),
    );

    fams.push(Family::new("soup", tier.pick(200, 1200), |_c, rng, emit| {
        for _ in 0..50 {
            let n = 1 + rng.below(8);
            let mut text = soup_program(rng, n);
            if rng.chance(1, 12) {
                text.insert(0, '\u{feff}');
            }
            let case = with_includes(rng, text, &mut |r| {
                let n = 1 + r.below(4);
                soup_program(r, n)
            });
            if !emit(case) {
                return;
            }
        }
    }));

    fams.push(Family::new("soup-typing-states", tier.pick(150, 900), |_c, rng, emit| {
        let alpha = tok::alphabet();
        for _ in 0..50 {
            let n = 1 + rng.below(5);
            let base = soup_program(rng, n);
            let text = match rng.below(4) {
                0 | 1 => mutate::prefix_at(&base, rng),
                2 => {
                    // single token edit
                    let toks: Vec<String> = crate::fw::shrink_tokens(&base);
                    mutate::mutate_tokens(&toks, rng, 1, &alpha).concat()
                }
                _ => mutate::insert_non_ascii(&mutate::char_noise(&base, rng, 2), rng, 1),
            };
            let case = with_includes(rng, text, &mut |r| soup_program(r, 2));
            if !emit(case) {
                return;
            }
        }
    }));

    // well-formed multi-file programs (rich symbol tables), whole and as typing states
    fams.push(Family::new("sem", tier.pick(60, 360), |_c, rng, emit| {
        for _ in 0..50 {
            let p = crate::gen::sem::program(rng, crate::gen::sem::Opts::WithProbes);
            let mut files = p.files.clone();
            match rng.below(6) {
                0 => {
                    let k = rng.below(files.len());
                    files[k].1 = mutate::prefix_at(&files[k].1, rng);
                }
                1 => {
                    let k = rng.below(files.len());
                    let alpha = tok::alphabet();
                    let toks: Vec<String> = crate::fw::shrink_tokens(&files[k].1);
                    files[k].1 = mutate::mutate_tokens(&toks, rng, 1, &alpha).concat();
                }
                2 => {
                    let k = rng.below(files.len());
                    files[k].1 = mutate::insert_non_ascii(&mutate::char_noise(&files[k].1, rng, 2), rng, 2);
                }
                3 => {
                    // an otherwise well-formed file that starts with a byte order mark
                    let k = rng.below(files.len());
                    files[k].1.insert(0, '\u{feff}');
                }
                _ => {}
            }
            let root = files[0].0.clone();
            if !emit(ws_case(&files, &root)) {
                return;
            }
        }
    }));

    fams.push(Family::new("gram", tier.pick(48, 300), |_c, rng, emit| {
        for _ in 0..50 {
            let budget = [30, 80, 160][rng.below(3)];
            let (_, text) = gram::program(rng, GramOpts { budget, includes: false, ..Default::default() });
            let text = match rng.below(5) {
                0 => mutate::prefix_at(&text, rng),
                1 => mutate::to_crlf(&text),
                _ => text,
            };
            let case = with_includes(rng, text, &mut |r| {
                let tree = gram::Gram::new(r, GramOpts { budget: 40, includes: false, ..Default::default() }).source_file();
                gram::render(&tree.token_vec(), Trivia::Mixed, r)
            });
            if !emit(case) {
                return;
            }
        }
    }));

    fams.push(Family::new("seed-files", 1, |_c, rng, emit| {
        let seeds = corpus::seeds();
        let all: Vec<(String, String)> = seeds.iter().map(|(p, t)| (p.clone(), t.clone())).collect();
        for (p, t) in seeds.iter() {
            // the seed directory as a workspace, each file as root; plus typing states
            if !emit(ws_case(&all, p)) {
                return;
            }
            for _ in 0..6 {
                let mut files = all.clone();
                if let Some(f) = files.iter_mut().find(|f| &f.0 == p) {
                    f.1 = mutate::prefix_at(t, rng);
                }
                if !emit(ws_case(&files, p)) {
                    return;
                }
            }
        }
    }));

    // real files with their real include structure (INCLUDE_DIR = vendored tree)
    fams.push(Family::new("llvm-corpus", corpus::llvm().len() as u64, move |chunk, _rng, emit| {
        let all = corpus::llvm();
        let files: Vec<(String, String)> = all.iter().map(|(p, t)| (format!("{}/{}", crate::ws::INC_DIR, p), t.clone())).collect();
        let root = files[chunk as usize].0.clone();
        emit(ws_case(&files, &root));
    }));
    fams
}
