//! C20 — completion vocabulary is closed under the server's own lexer and parser.
use std::collections::{BTreeMap, BTreeSet};

use ide::handlers::completion::{CompletionItem, CompletionItemKind};
use serde_json::json;

use super::c14::impl_lex;
use crate::fw::*;
use crate::gen::tok::REF_BANG_OPERATORS;
use crate::ws::{pos, Workspace};

pub struct C20;

/// trivia put in front of (and behind) a completion context
const PRE: [&str; 10] = ["// naïve café\n", "// 日本語 😀 𝔘\n", "/* ü */ ", "\r\n", "\n", "  ", "// plain\r\n", "/* a\n b */\n", "\t", "// ééé ¡!\n"];
/// (context, trigger character): the cursor is at the end
const DOC_CTX: [(&str, Option<&str>); 6] = [("c", None), ("class Foo<i", None), ("class Foo<int a = t", None), ("!", Some("!")), ("defvar x = !", Some("!")), ("def d { int v = !", Some("!"))];

fn complete(text: &str, at: usize, trigger: Option<&str>) -> Vec<CompletionItem> {
    let ws = Workspace::new(&[("root.td".to_string(), text.to_string())], "root.td");
    ws.analysis().completion(pos(ws.root, at), trigger.map(|s| s.to_string())).unwrap_or_default()
}

fn single_token(word: &str) -> Option<syntax::token_kind::TokenKind> {
    let (t, e) = impl_lex(word);
    if t.len() == 1 && e.is_empty() && t[0].1 == 0 && t[0].2 == word.len() {
        Some(t[0].0)
    } else {
        None
    }
}

fn canned(kw: &str) -> Option<&'static str> {
    Some(match kw {
        "assert" => "assert 1, \"m\";",
        "class" => "class X;",
        "def" => "def X;",
        "dump" => "dump 1;",
        "foreach" => "foreach i = [1] in def X;",
        "defm" => "defm X : M;",
        "defset" => "defset list<A> X = { }",
        "defvar" => "defvar X = 1;",
        "if" => "if 1 then def X;",
        "include" => "include \"f.td\"",
        "let" => "let a = 1 in def X;",
        "multiclass" => "multiclass X { def Y; }",
        _ => return None,
    })
}

/// candidate operator spellings: string literals of the lexer source + the reference list
fn lexer_candidates() -> BTreeSet<String> {
    let mut set: BTreeSet<String> = REF_BANG_OPERATORS.iter().map(|s| s.to_string()).collect();
    if let Ok(src) = std::fs::read_to_string("/repo/crates/syntax/src/lexer.rs") {
        let mut rest = src.as_str();
        while let Some(p) = rest.find('"') {
            rest = &rest[p + 1..];
            let Some(q) = rest.find('"') else { break };
            let lit = &rest[..q];
            if !lit.is_empty() && lit.len() < 24 && lit.bytes().all(|c| c.is_ascii_alphanumeric()) {
                set.insert(lit.to_string());
            }
            rest = &rest[q + 1..];
        }
    }
    // and everything the completion itself offers, spelled with/without digits
    for extra in ["log2", "concat", "logtwo"] {
        set.insert(extra.to_string());
    }
    set
}

fn vocab_item(which: &str) -> Verdict {
    // which = "<context>:<word>"
    let Some((ctx, word)) = which.split_once(':') else { return Verdict::Skip("malformed-case") };
    match ctx {
        "offered-keyword" | "offered-type" | "offered-value" => {
            match single_token(word) {
                Some(k) if k != syntax::token_kind::TokenKind::Id && k != syntax::token_kind::TokenKind::Error && !k.is_trivia() => {}
                other => {
                    return Verdict::Fail(Failure::new("C20.offered-not-lexed", format!("C20.offered-not-lexed:{word}"), format!("{ctx} {word:?} lexes to {other:?}, not to a keyword token")));
                }
            }
            if ctx == "offered-keyword" {
                let p = syntax::parse(word);
                if p.errors().iter().any(|e| u32::from(e.range.start()) == 0 && e.message.starts_with("expected class, def")) {
                    return Verdict::Fail(Failure::new("C20.keyword-starts-no-statement", format!("C20.keyword-starts-no-statement:{word}"), format!("file-level keyword {word:?} is not accepted as the start of a statement")));
                }
                if let Some(st) = canned(word) {
                    let p = syntax::parse(st);
                    if !p.errors().is_empty() {
                        return Verdict::Fail(Failure::new("C20.keyword-starts-no-statement", format!("C20.keyword-starts-no-statement:{word}"), format!("minimal statement {st:?} has syntax errors {:?}", p.errors())));
                    }
                }
            }
            Verdict::pass(true)
        }
        "offered-operator" => match single_token(&format!("!{word}")) {
            Some(k) if k.is_bang_operator() || k.is_cond_operator() => Verdict::pass(true),
            other => Verdict::Fail(Failure::new("C20.offered-not-lexed", format!("C20.offered-not-lexed:!{word}"), format!("offered operator !{word} lexes to {other:?}"))),
        },
        "lexer-operator" => {
            let accepted = matches!(single_token(&format!("!{word}")), Some(k) if k.is_bang_operator() || k.is_cond_operator());
            if !accepted {
                return Verdict::Pass { nontrivial: false, labels: vec!["candidate-not-an-operator"] };
            }
            // after a fresh `!`, after a `!` in value positions, and after a `!` typed in front of text
            // that already spells an operator (the cursor sits between `!` and the name)
            let value_ctx = "defvar x = !";
            let before_name = format!("defvar x = !{word}(1, 2);");
            let in_body = "def d { int v = !; }";
            let contexts: [(&str, usize, &str); 4] = [
                ("!", 1, "a fresh '!'"),
                (value_ctx, value_ctx.len(), "'!' at the end of a defvar initialiser"),
                (&before_name, "defvar x = !".len(), "'!' directly in front of the operator's own name"),
                (in_body, "def d { int v = !".len(), "'!' in a field initialiser"),
            ];
            for (text, at, what) in contexts {
                let offered: BTreeSet<String> = complete(text, at, Some("!")).into_iter().map(|c| c.label).collect();
                if !offered.contains(word) {
                    return Verdict::Fail(Failure::new("C20.lexed-not-offered", format!("C20.lexed-not-offered:!{word}"), format!("the lexer accepts !{word} but it is not offered after {what} ({text:?} at {at})")));
                }
            }
            Verdict::pass(true)
        }
        _ => Verdict::Skip("malformed-case"),
    }
}

// ---- class completion ---------------------------------------------------------------------

fn class_ws(rng: &mut Rng) -> (Vec<(String, String)>, BTreeMap<String, usize>, Vec<(usize, usize)>) {
    // returns files, class -> #template params (last declaration wins), and (offset after ':'/',' , typed chars available)
    let nclasses = 1 + rng.below(6);
    let mut classes: BTreeMap<String, usize> = BTreeMap::new();
    let mut inc = String::new();
    let mut root = String::from("include \"inc.td\"\n");
    // (names that differ only in case, or by a trailing digit or underscore, are different classes)
    let names = ["Alpha", "Beta", "Gamma", "Delta", "Al", "Bet", "Alphabet", "alpha", "ALPHA", "beta", "Al_", "Al2"];
    let mut positions = Vec::new();
    let mut inc_decls: Vec<(String, usize)> = Vec::new();
    let mut root_decls: Vec<(String, usize)> = Vec::new();
    for _ in 0..nclasses {
        let name = names[rng.below(names.len())];
        let k = rng.below(4);
        // template parameters of every type, without default or with a default of every shape the
        // indexer may or may not be able to type (a parameter is a parameter whatever its default)
        let targs = if k == 0 {
            String::new()
        } else {
            // (type, type-correct defaults); `{j}` stands for an earlier int parameter
            const SHAPES: [(&str, &[&str]); 7] = [
                ("int", &["7", "!add(1, 2)", "?", "p{j}", "!if(true, 1, 2)"]),
                ("string", &["\"s\"", "?", "!strconcat(\"a\", \"b\")"]),
                ("bit", &["true", "?", "!eq(1, 2)", "p{j}{0}", "!lt(p{j}, 3)"]),
                ("bits<4>", &["5", "{0, 1, 0, 1}", "?", "p{j}{3...0}"]),
                ("list<int>", &["[1, 2]", "[]", "?", "!listconcat([1], [2])", "[p{j}]"]),
                ("dag", &["?"]),
                ("code", &["[{ c }]", "?"]),
            ];
            let mut ints: Vec<usize> = Vec::new();
            let mut params: Vec<String> = Vec::new();
            for i in 0..k {
                let (ty, defaults) = SHAPES[rng.below(SHAPES.len())];
                let default = if rng.chance(1, 2) {
                    String::new()
                } else {
                    let usable: Vec<&&str> = defaults.iter().filter(|d| !d.contains("{j}") || !ints.is_empty()).collect();
                    let d = usable[rng.below(usable.len())];
                    let j = if ints.is_empty() { 0 } else { ints[rng.below(ints.len())] };
                    format!(" = {}", d.replace("{j}", &j.to_string()))
                };
                if ty == "int" {
                    ints.push(i);
                }
                params.push(format!("{ty} p{i}{default}"));
            }
            format!("<{}>", params.join(", "))
        };
        let decl = format!("class {name}{targs};\n");
        if rng.chance(1, 3) {
            inc.push_str(&decl);
            inc_decls.push((name.to_string(), k));
        } else {
            root.push_str(&decl);
            root_decls.push((name.to_string(), k));
        }
    }
    // now and then one of the files ends with a switched-off region that holds classes, some of them
    // behind a conditional of their own (the include-guard idiom inside disabled text): none of them exists
    match rng.below(6) {
        0 => root.push_str("#ifdef NEVER_DEFINED\n#ifndef GUARD_H\n#define GUARD_H\nclass Hidden1;\n#endif\nclass Hidden2<int a>;\n#endif\n"),
        1 => inc.push_str("#ifndef ALWAYS\n#define ALWAYS\n#else\n#ifndef INNER\nclass Hidden3<int a, int b>;\n#else\nclass Hidden4;\n#endif\nclass Hidden5;\n#endif\n"),
        _ => {}
    }
    // the included file is indexed first (its include statement is the first line of the root);
    // for a redeclared class the last declaration in indexing order wins
    for (n, k) in inc_decls.into_iter().chain(root_decls) {
        classes.insert(n, k);
    }
    // use sites: class / def / with one or two parents
    for u in 0..1 + rng.below(3) {
        let p1 = names[rng.below(names.len())];
        let p2 = names[rng.below(names.len())];
        let head = match rng.below(3) {
            0 => format!("class U{u} : "),
            1 => format!("def u{u} : "),
            _ => format!("def u{u}:"),
        };
        root.push_str(&head);
        positions.push((root.len(), p1.len()));
        root.push_str(p1);
        if rng.chance(1, 2) {
            root.push_str(if rng.chance(1, 2) { ", " } else { "," });
            positions.push((root.len(), p2.len()));
            root.push_str(p2);
        }
        root.push_str(";\n");
        if head.starts_with("class") {
            classes.insert(format!("U{u}"), 0);
        }
    }
    (vec![("root.td".to_string(), root), ("inc.td".to_string(), inc)], classes, positions)
}

fn placeholders(snippet: &str) -> usize {
    // ${n} placeholders (the final $0 is not a parameter)
    snippet.matches("${").count()
}

impl Property for C20 {
    fn id(&self) -> &'static str {
        "C20"
    }
    fn rule(&self) -> String {
        "exhaustive over the finite vocabularies: every item Analysis::completion offers in the four contexts (file level `c|`, type position `class Foo<i|`, value position `class Foo<int a = t|`, after `!` with the trigger character) must lex (server's own lexer) to exactly one keyword/type/operator token - never Id or Error -, every file-level keyword must not hit the statement-dispatch error and its minimal statement must parse with zero errors; every operator spelling the lexer accepts after `!` (candidates: all string literals of lexer.rs + the reference operator list) must be offered - after a fresh '!', after a '!' in two value positions, and after a '!' typed directly in front of the operator's own name. Class completion: generated workspaces (1..6 classes with 0..3 template parameters of seven types, each without default or with a type-correct default (literal, ?, operator, an earlier int parameter, a bit or bit range of one); root + included file, redefinitions) x every parent-class position x 0..3 typed characters: labels = exactly the classes of the workspace, one ${n} placeholder per template parameter; the same at a parent-class position appended to generated (SEM) programs, whose classes and parameter counts are known by construction, asked on the program as opened and again after an edit that moves every include statement. distinct = vocabulary item spelling / digest of class case; non-trivial = every vocabulary item, class cases with >=2 classes".into()
    }
    fn families(&self, ctx: &Ctx) -> Vec<Family> {
        vec![
            Family::new("vocabulary", 1, |_c, _r, emit| {
                let mut items: Vec<String> = Vec::new();
                for c in complete("c", 1, None) {
                    items.push(format!("offered-keyword:{}", c.label));
                }
                for c in complete("class Foo<i", 11, None) {
                    if c.kind != CompletionItemKind::Class {
                        items.push(format!("offered-type:{}", c.label));
                    }
                }
                for c in complete("class Foo<int a = t", 19, None) {
                    items.push(format!("offered-value:{}", c.label));
                }
                // what the trigger character adds to the context (the position itself is a
                // file-level position and also offers the statement keywords, checked above)
                let without: Vec<String> = complete("!", 1, None).into_iter().map(|c| c.label).collect();
                for c in complete("!", 1, Some("!")) {
                    if !without.contains(&c.label) {
                        items.push(format!("offered-operator:{}", c.label));
                    }
                }
                for w in lexer_candidates() {
                    items.push(format!("lexer-operator:{w}"));
                }
                for it in items {
                    if !emit(json!({"kind": "vocab", "item": it})) {
                        return;
                    }
                }
                emit(json!({"kind": "vocab-nonempty"}));
            })
            .exhaustive(),
            // the same four contexts inside documents: trivia in front of them (comments with non-ASCII
            // text, CRLF and bare line breaks, block comments) changes nothing of what is offered
            Family::new("vocabulary-in-documents", ctx.tier.pick(40, 2000), |_c, rng, emit| {
                for _ in 0..50 {
                    let pre: Vec<usize> = (0..1 + rng.below(5)).map(|_| rng.below(PRE.len())).collect();
                    let post: Vec<usize> = (0..rng.below(3)).map(|_| rng.below(PRE.len())).collect();
                    if !emit(json!({"kind": "vocab-doc", "ctx": rng.below(DOC_CTX.len()), "pre": pre, "post": post})) {
                        return;
                    }
                }
            }),
            Family::new("class-completion-sem", ctx.tier.pick(100, 20000), |_c, rng, emit| {
                for _ in 0..50 {
                    if !emit(json!({"kind": "class-completion-sem", "seed": rng.next() >> 16, "n": 2 + rng.below(8), "opts": "clean"})) {
                        return;
                    }
                }
            }),
            Family::new("class-completion", ctx.tier.pick(300, 20000), |_c, rng, emit| {
                for _ in 0..50 {
                    let (files, classes, positions) = class_ws(rng);
                    let case = json!({
                        "kind": "class-completion",
                        "files": files.iter().map(|(p, t)| (p.clone(), json!(t))).collect::<serde_json::Map<_, _>>(),
                        "classes": classes,
                        "positions": positions.iter().map(|(o, l)| json!([o, l])).collect::<Vec<_>>(),
                    });
                    if !emit(case) {
                        return;
                    }
                }
            }),
        ]
    }
    fn run_case(&self, _ctx: &Ctx, case: &Case) -> Verdict {
        match case["kind"].as_str() {
            Some("vocab") => vocab_item(case["item"].as_str().unwrap_or("")),
            Some("vocab-doc") => {
                let (Some(k), Some(pre), Some(post)) = (case["ctx"].as_u64(), case["pre"].as_array(), case["post"].as_array()) else { return Verdict::Skip("malformed-case") };
                let (text, trigger) = DOC_CTX[k as usize % DOC_CTX.len()];
                let pick = |v: &Vec<serde_json::Value>| -> String { v.iter().map(|i| PRE[i.as_u64().unwrap_or(0) as usize % PRE.len()]).collect() };
                let (pre, post) = (pick(pre), pick(post));
                let item = |c: CompletionItem| (c.label.to_string(), format!("{:?}", c.kind));
                let mut bare: Vec<(String, String)> = complete(text, text.len(), trigger).into_iter().map(item).collect();
                let doc = format!("{pre}{text}");
                let mut got: Vec<(String, String)> = complete(&doc, doc.len(), trigger).into_iter().map(item).collect();
                bare.sort();
                got.sort();
                if bare != got {
                    let missing: Vec<&(String, String)> = bare.iter().filter(|x| !got.contains(x)).collect();
                    let extra: Vec<&(String, String)> = got.iter().filter(|x| !bare.contains(x)).collect();
                    return Verdict::Fail(Failure::new("C20.vocabulary-depends-on-trivia", format!("C20.vocabulary-depends-on-trivia:{k}"), format!("completion at the end of {doc:?} (trigger {trigger:?}): missing {missing:?}, additional {extra:?} compared with the same context {text:?} without the comments and line breaks in front")));
                }
                // after a `!`, whatever follows the cursor: every operator the lexer accepts is offered
                if trigger.is_some() {
                    let doc2 = format!("{pre}{text}{post}");
                    let offered: BTreeSet<String> = complete(&doc2, doc.len(), trigger).into_iter().map(|c| c.label.to_string()).collect();
                    for w in lexer_candidates() {
                        let accepted = matches!(single_token(&format!("!{w}")), Some(k) if k.is_bang_operator() || k.is_cond_operator());
                        if accepted && !offered.contains(&w) {
                            return Verdict::Fail(Failure::new("C20.lexed-not-offered", format!("C20.lexed-not-offered:!{w}"), format!("the lexer accepts !{w} but it is not offered after the '!' at {} of {doc2:?}", doc.len())));
                        }
                    }
                }
                Verdict::pass(!pre.is_ascii() || pre.contains('\r'))
            }
            Some("vocab-nonempty") => {
                // the four contexts answer with their vocabularies at all (guards the harvest itself)
                let n = [complete("c", 1, None).len(), complete("class Foo<i", 11, None).len(), complete("class Foo<int a = t", 19, None).len(), complete("!", 1, Some("!")).len()];
                if n.iter().any(|&k| k == 0) {
                    return Verdict::Fail(Failure::plain("C20.context-empty", format!("completion lists in the four contexts have sizes {n:?}")));
                }
                Verdict::pass(true)
            }
            Some("class-completion") => {
                let (Some(files), Some(classes), Some(positions)) = (case["files"].as_object(), case["classes"].as_object(), case["positions"].as_array()) else {
                    return Verdict::Skip("malformed-case");
                };
                let files: Vec<(String, String)> = files.iter().map(|(k, v)| (k.clone(), v.as_str().unwrap_or("").to_string())).collect();
                if !files.iter().any(|f| f.0 == "root.td") {
                    return Verdict::Skip("malformed-case");
                }
                let ws = Workspace::new(&files, "root.td");
                let a = ws.analysis();
                let root_len = files.iter().find(|f| f.0 == "root.td").map(|f| f.1.len()).unwrap_or(0);
                let want: BTreeMap<String, usize> = classes.iter().map(|(k, v)| (k.clone(), v.as_u64().unwrap_or(0) as usize)).collect();
                for p in positions {
                    let (Some(o), Some(l)) = (p[0].as_u64(), p[1].as_u64()) else { continue };
                    for typed in 0..=(l as usize).min(3) {
                        let at = o as usize + typed;
                        if at > root_len {
                            return Verdict::Skip("malformed-case");
                        }
                        let items = a.completion(pos(ws.root, at), None).unwrap_or_default();
                        // one item per class: compared as a sorted list, so a class offered twice is seen
                        let mut got: Vec<(String, usize)> = items
                            .iter()
                            .filter(|c| c.kind == CompletionItemKind::Class)
                            .map(|c| (c.label.clone(), c.insert_text_snippet.as_deref().map(placeholders).unwrap_or(0)))
                            .collect();
                        got.sort();
                        let want: Vec<(String, usize)> = want.iter().map(|(k, v)| (k.clone(), *v)).collect();
                        if got != want {
                            let shape = if typed == 0 { ":no-typed-character" } else { "" };
                            return Verdict::Fail(Failure::new(
                                "C20.class-completion",
                                format!("C20.class-completion{shape}"),
                                format!("at offset {at} ({typed} typed chars): offered {got:?}, classes of the workspace (with parameter counts) {want:?}"),
                            ));
                        }
                    }
                }
                Verdict::pass(want.len() >= 2)
            }
            Some("class-completion-sem") => {
                // a generated (SEM) program with a parent-class position appended to its root: the classes
                // and their parameter counts are known from the generator
                use crate::gen::sem::DeclKind;
                let Some(p) = super::semcase::program_of(case) else { return Verdict::Skip("malformed-case") };
                let mut files = p.files.clone();
                files[0].1.push_str("\ndef zz_probe : K");
                let at0 = files[0].1.len() - 1;
                let mut ws = Workspace::new(&files, &files[0].0);
                // (a name declared twice - forward declaration, then definition - is one class: the later
                // declaration is the one in force at the end of the root)
                let by_name: BTreeMap<String, usize> = p
                    .decls
                    .iter()
                    .filter(|d| d.kind == DeclKind::Class)
                    .map(|d| (d.name.clone(), p.decls.iter().filter(|t| t.kind == DeclKind::TemplateArg && t.owner == Some(d.id)).count()))
                    .collect();
                let want: Vec<(String, usize)> = by_name.into_iter().collect();
                // asked twice: on the program as opened, and after an edit that inserts a line at the top
                // of the root (every include statement moves, no class comes or goes)
                for round in 0..2 {
                let shift = if round == 1 {
                    let edited = format!("// edited\n{}", files[0].1);
                    let name = files[0].0.clone();
                    ws.edit_as_root(&name, &edited);
                    "// edited\n".len()
                } else {
                    0
                };
                let a = ws.analysis();
                for typed in 0..=1 {
                    let items = a.completion(pos(ws.root, at0 + shift + typed), None).unwrap_or_default();
                    let mut got: Vec<(String, usize)> = items
                        .iter()
                        .filter(|c| c.kind == CompletionItemKind::Class)
                        .map(|c| (c.label.clone(), c.insert_text_snippet.as_deref().map(placeholders).unwrap_or(0)))
                        .collect();
                    got.sort();
                    if got != want {
                        return Verdict::Fail(Failure::new(
                            "C20.class-completion",
                            "C20.class-completion:generated-program",
                            format!("generated program{}, parent-class position at the end of the root ({typed} typed chars): offered {got:?}, classes of the workspace (with parameter counts) {want:?}\n--- root\n{}", if round == 1 { " after a line was inserted at its top" } else { "" }, files[0].1),
                        ));
                    }
                }
                }
                Verdict::pass(want.len() >= 2 && want.iter().any(|w| w.1 > 0))
            }
            _ => Verdict::Skip("malformed-case"),
        }
    }
    fn shrink_keep(&self) -> &'static [&'static str] {
        &["kind", "item", "files", "classes", "positions", "seed", "opts"]
    }
}
