//! C02 — parser totality: no panic, bounded work, well-formed errors.
use rowan::NodeOrToken;

use super::textspace;
use crate::fw::*;
use serde_json::json;

pub struct C02;

pub const WORK_FACTOR: u64 = 24;
pub const WORK_CONST: u64 = 256;

pub fn check_total(text: &str) -> Result<(usize, usize, u64), Failure> {
    // generous hard budget first (turns a non-progress loop into a panic) …
    syntax::verif::reset(WORK_FACTOR * 4 * (text.len() as u64 + 2) + 4096);
    let parse = syntax::parse(text);
    let steps = syntax::verif::steps();
    syntax::verif::reset(u64::MAX);
    let root = parse.syntax_node();
    let tree_tok = root.descendants_with_tokens().filter(|e| matches!(e, NodeOrToken::Token(_))).count();
    // … then the stated linear bound against the number of lexical tokens: the larger of the raw
    // token count (several raw tokens can end up in one tree token, e.g. the preprocessor directives)
    // and the tree's token count (a disabled region is skipped line by line and is one tree token, but
    // the raw lexer may read an unterminated construct in it up to the end of the file)
    let ntok = tree_tok.max({
        use syntax::token_stream::TokenStream;
        let mut lx = syntax::lexer::Lexer::new(text);
        let mut n = 0usize;
        while lx.eat() != syntax::token_kind::TokenKind::Eof {
            n += 1;
        }
        n
    });
    // (the lines of a disabled region count as well: the region is one tree token, the raw lexer may
    // swallow it in one unterminated construct, and it is skipped one line at a time)
    let ntok = ntok.max(text.lines().count());
    let bound = WORK_FACTOR * (ntok as u64 + 1) + WORK_CONST;
    if steps > bound {
        return Err(Failure::plain("C02.work-bound", format!("{steps} parser steps for {ntok} tokens/lines (bound {bound})")));
    }
    for e in parse.errors() {
        if e.message.trim().is_empty() {
            return Err(Failure::plain("C02.error-message", format!("empty error message at {:?}", e.range)));
        }
        let s = u32::from(e.range.start()) as usize;
        let z = u32::from(e.range.end()) as usize;
        if s > z || z > text.len() || !text.is_char_boundary(s) || !text.is_char_boundary(z) {
            return Err(Failure::plain(
                "C02.error-range",
                format!("error {:?} has range {s}..{z} outside the text (len {}) or off a char boundary", e.message, text.len()),
            ));
        }
    }
    Ok((ntok, parse.errors().len(), steps))
}

/// lines that are repeated for the time-scaling family: dense in syntax errors, or valid
const SCALE_UNITS: [&str; 16] = [
    "int x = foo(1, 2) { return; }\n",
    "@ ",
    "class ; def ; ",
    ") ] } ",
    "\"unterminated\n",
    "def a;\n",
    "class A<int p = 1> { int x = !add(p, 1); let x = 2; }\n",
    "/* c */ // d\n",
    "#ifdef X\ndef hidden;\n#endif\n",
    "defvar v = [1, 2, 3][0] # \"s\" # $ ;\n",
    // constructs that are left open on every line: each of them may make the lexer look ahead
    "[{ } ]\n",
    "[{\n",
    "def d { code c = [{ x\n",
    "/* open\n",
    "#ifdef NEVER\n",
    "!foo( 0b2 0x \n",
];

fn thread_cpu_seconds() -> f64 {
    let mut ts = libc::timespec { tv_sec: 0, tv_nsec: 0 };
    // SAFETY: plain syscall filling the struct
    unsafe { libc::clock_gettime(libc::CLOCK_THREAD_CPUTIME_ID, &mut ts) };
    ts.tv_sec as f64 + ts.tv_nsec as f64 * 1e-9
}

impl Property for C02 {
    fn id(&self) -> &'static str {
        "C02"
    }
    fn hang_is_violation(&self) -> bool {
        true
    }
    fn rule(&self) -> String {
        format!("C01's input space plus: an unterminated string/code block/comment/#ifdef/#else inserted at every token boundary of GRAM programs, 12 nesting shapes (brackets and chained let/if/foreach) at depth 1..250, one token repeated 10^4 times. Oracle: no panic/abort, hook step count <= {WORK_FACTOR}*(tokens+1)+{WORK_CONST}, every error has a message and an in-text char-boundary range; family time-scaling: sixteen lines (dense in syntax errors, valid, or leaving a string / code block / comment / conditional open) repeated 600 and 9600 times - the processor time of the long parse may be 64 times that of the short one (best of three) or stay under two seconds, in two rounds. Inputs with scan depth > 256 are skipped (counted). distinct = digest of text; non-trivial = >=1 syntax error, or depth >= 32, or >= 200 tokens")
    }
    fn assumptions(&self) -> Vec<String> {
        vec![
            "step counter hook (feature verif) counts every lexer token and every opened node".into(),
            "worker threads run on a 256 MiB stack; the server's own 2 MiB stacks are not asserted".into(),
        ]
    }
    fn families(&self, ctx: &Ctx) -> Vec<Family> {
        // work the step hook does not see (scans of what has been collected so far, re-allocation, …):
        // the processor time of one parse of a text 16 times as long, against the short one. First in
        // the list: the long repetitions further down take hours with a quadratic parser
        let mut fams = vec![Family::new("time-scaling", SCALE_UNITS.len() as u64, |c, _r, emit| {
            emit(json!({"kind": "scale", "unit": SCALE_UNITS[c as usize % SCALE_UNITS.len()], "n": 600}));
        })
        .exhaustive()];
        fams.extend(textspace::families(ctx, true));
        fams
    }
    fn run_case(&self, _ctx: &Ctx, case: &Case) -> Verdict {
        if case["kind"] == "scale" {
            let (Some(unit), Some(n)) = (case["unit"].as_str(), case["n"].as_u64()) else { return Verdict::Skip("malformed-case") };
            let n = (n as usize).clamp(100, 4000);
            let small = unit.repeat(n);
            let big = unit.repeat(16 * n);
            let cpu = |text: &str| -> f64 {
                let t0 = thread_cpu_seconds();
                let p = syntax::parse(text);
                let t1 = thread_cpu_seconds();
                std::hint::black_box(p.errors().len());
                t1 - t0
            };
            // twice: a slow outlier on a loaded machine is not repeated, a quadratic algorithm is
            let mut worst_ok = true;
            let mut seen = Vec::new();
            for _ in 0..2 {
                let ts = (0..3).map(|_| cpu(&small)).fold(f64::MAX, f64::min).max(1e-4);
                let tb = cpu(&big);
                seen.push((ts, tb));
                // 16 times the text may cost 64 times the processor time at most - or less than two seconds
                if !(tb > 64.0 * ts && tb > 2.0) {
                    worst_ok = false;
                }
            }
            if worst_ok {
                return Verdict::Fail(Failure::new(
                    "C02.superlinear-time",
                    "C02.superlinear-time",
                    format!("{:?} repeated {n} and {} times: processor time of the parse (short, long) in seconds, two rounds: {seen:?} - more than 64 times as long for 16 times the text", unit, 16 * n),
                ));
            }
            return Verdict::Pass { nontrivial: true, labels: vec!["time scaling"] };
        }
        if let Some(text) = textspace::flat_text(case) {
            // no nesting at all: parsed on a small stack; the step budget and the error checks apply as usual
            let r = textspace::on_small_stack(move || std::panic::catch_unwind(|| check_total(&text)).map_err(|_| take_panic()));
            return match r {
                Ok(Ok(_)) => Verdict::Pass { nontrivial: true, labels: vec!["flat text on a 512 KiB stack"] },
                Ok(Err(f)) => Verdict::Fail(f),
                Err(desc) => Verdict::Fail(Failure::new("panic", panic_sig(&desc), desc)),
            };
        }
        let Some(text) = textspace::case_text(case) else { return Verdict::Skip("malformed-case") };
        let depth = textspace::scan_depth(text);
        if depth > 256 {
            return Verdict::Skip("depth>256");
        }
        match check_total(text) {
            Ok((ntok, nerr, steps)) => {
                let ratio = steps / (ntok as u64 + 1);
                let label = match ratio {
                    0..=2 => "steps/token<=2",
                    3..=4 => "steps/token<=4",
                    5..=8 => "steps/token<=8",
                    9..=16 => "steps/token<=16",
                    _ => "steps/token>16",
                };
                Verdict::Pass { nontrivial: nerr >= 1 || depth >= 32 || ntok >= 200, labels: vec![label] }
            }
            Err(f) => Verdict::Fail(f),
        }
    }
}
