//! C02 — parser totality: no panic, bounded work, well-formed errors.
use rowan::NodeOrToken;

use super::textspace;
use crate::fw::*;

pub struct C02;

pub const WORK_FACTOR: u64 = 24;
pub const WORK_CONST: u64 = 256;

pub fn check_total(text: &str) -> Result<(usize, usize, u64), Failure> {
    // generous hard budget first (turns a non-progress loop into a panic) …
    syntax::verif::reset(WORK_FACTOR * 4 * (text.len() as u64 + 2) + 4096);
    let parse = syntax::parse(text);
    let steps = syntax::verif::steps();
    syntax::verif::reset(u64::MAX);
    let root = parse.syntax_node();
    let tree_tok = root.descendants_with_tokens().filter(|e| matches!(e, NodeOrToken::Token(_))).count();
    // … then the stated linear bound against the number of lexical tokens: the larger of the raw
    // token count (several raw tokens can end up in one tree token, e.g. the preprocessor directives)
    // and the tree's token count (a disabled region is skipped line by line and is one tree token, but
    // the raw lexer may read an unterminated construct in it up to the end of the file)
    let ntok = tree_tok.max({
        use syntax::token_stream::TokenStream;
        let mut lx = syntax::lexer::Lexer::new(text);
        let mut n = 0usize;
        while lx.eat() != syntax::token_kind::TokenKind::Eof {
            n += 1;
        }
        n
    });
    // (the lines of a disabled region count as well: the region is one tree token, the raw lexer may
    // swallow it in one unterminated construct, and it is skipped one line at a time)
    let ntok = ntok.max(text.lines().count());
    let bound = WORK_FACTOR * (ntok as u64 + 1) + WORK_CONST;
    if steps > bound {
        return Err(Failure::plain("C02.work-bound", format!("{steps} parser steps for {ntok} tokens/lines (bound {bound})")));
    }
    for e in parse.errors() {
        if e.message.trim().is_empty() {
            return Err(Failure::plain("C02.error-message", format!("empty error message at {:?}", e.range)));
        }
        let s = u32::from(e.range.start()) as usize;
        let z = u32::from(e.range.end()) as usize;
        if s > z || z > text.len() || !text.is_char_boundary(s) || !text.is_char_boundary(z) {
            return Err(Failure::plain(
                "C02.error-range",
                format!("error {:?} has range {s}..{z} outside the text (len {}) or off a char boundary", e.message, text.len()),
            ));
        }
    }
    Ok((ntok, parse.errors().len(), steps))
}

impl Property for C02 {
    fn id(&self) -> &'static str {
        "C02"
    }
    fn hang_is_violation(&self) -> bool {
        true
    }
    fn rule(&self) -> String {
        format!("C01's input space plus: an unterminated string/code block/comment/#ifdef/#else inserted at every token boundary of GRAM programs, 12 nesting shapes (brackets and chained let/if/foreach) at depth 1..250, one token repeated 10^4 times. Oracle: no panic/abort, hook step count <= {WORK_FACTOR}*(tokens+1)+{WORK_CONST}, every error has a message and an in-text char-boundary range. Inputs with scan depth > 256 are skipped (counted). distinct = digest of text; non-trivial = >=1 syntax error, or depth >= 32, or >= 200 tokens")
    }
    fn assumptions(&self) -> Vec<String> {
        vec![
            "step counter hook (feature verif) counts every lexer token and every opened node".into(),
            "worker threads run on a 256 MiB stack; the server's own 2 MiB stacks are not asserted".into(),
        ]
    }
    fn families(&self, ctx: &Ctx) -> Vec<Family> {
        textspace::families(ctx, true)
    }
    fn run_case(&self, _ctx: &Ctx, case: &Case) -> Verdict {
        if let Some(text) = textspace::flat_text(case) {
            // no nesting at all: parsed on a small stack; the step budget and the error checks apply as usual
            let r = textspace::on_small_stack(move || std::panic::catch_unwind(|| check_total(&text)).map_err(|_| take_panic()));
            return match r {
                Ok(Ok(_)) => Verdict::Pass { nontrivial: true, labels: vec!["flat text on a 512 KiB stack"] },
                Ok(Err(f)) => Verdict::Fail(f),
                Err(desc) => Verdict::Fail(Failure::new("panic", panic_sig(&desc), desc)),
            };
        }
        let Some(text) = textspace::case_text(case) else { return Verdict::Skip("malformed-case") };
        let depth = textspace::scan_depth(text);
        if depth > 256 {
            return Verdict::Skip("depth>256");
        }
        match check_total(text) {
            Ok((ntok, nerr, steps)) => {
                let ratio = steps / (ntok as u64 + 1);
                let label = match ratio {
                    0..=2 => "steps/token<=2",
                    3..=4 => "steps/token<=4",
                    5..=8 => "steps/token<=8",
                    9..=16 => "steps/token<=16",
                    _ => "steps/token>16",
                };
                Verdict::Pass { nontrivial: nerr >= 1 || depth >= 32 || ntok >= 200, labels: vec![label] }
            }
            Err(f) => Verdict::Fail(f),
        }
    }
}
