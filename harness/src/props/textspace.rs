//! The shared exploration space of C01 / C02: cases are `{"kind":"text","text":…}`.
use serde_json::json;

use crate::fw::{Case, Ctx, Emit, Family, Rng, Tier};
use crate::gen::gram::{self, GramOpts, Trivia};
use crate::gen::{corpus, mutate, tok};

pub fn text_case(text: String) -> Case {
    json!({"kind": "text", "text": text})
}

pub fn case_text(case: &Case) -> Option<&str> {
    case.get("text").and_then(|t| t.as_str())
}

/// kind "flat": one lexeme repeated n times (built here, the case stays small)
pub fn flat_text(case: &Case) -> Option<String> {
    if case.get("kind").and_then(|k| k.as_str()) != Some("flat") {
        return None;
    }
    let lex = case.get("lexeme")?.as_str()?;
    let sep = case.get("sep").and_then(|s| s.as_str()).unwrap_or(" ");
    let n = case.get("n").and_then(|n| n.as_u64()).unwrap_or(1000).min(400_000) as usize;
    let mut s = String::with_capacity((lex.len() + sep.len()) * n);
    for _ in 0..n {
        s.push_str(lex);
        s.push_str(sep);
    }
    Some(s)
}

/// runs `f` on a thread with a 512 KiB stack (a text without any nesting needs no more, however long)
pub fn on_small_stack<T: Send + 'static>(f: impl FnOnce() -> T + Send + 'static) -> T {
    std::thread::Builder::new().stack_size(512 * 1024).spawn(f).expect("spawn small-stack thread").join().expect("small-stack thread")
}

fn join(tokens: &[&str], sep: &str) -> String {
    tokens.join(sep)
}

/// every sequence of 1..=max_len classes starting with class `first`, with separators "" and " "
fn enumerate_from(alpha: &[(&'static str, String)], first: usize, max_len: usize, emit: Emit) {
    let n = alpha.len();
    let mut idx = vec![first];
    loop {
        let toks: Vec<&str> = idx.iter().map(|&i| alpha[i].1.as_str()).collect();
        for sep in ["", " "] {
            if sep == " " && toks.len() == 1 {
                continue;
            }
            if !emit(text_case(join(&toks, sep))) {
                return;
            }
        }
        // next in length-lexicographic DFS order below `first`
        if idx.len() < max_len {
            idx.push(0);
            continue;
        }
        loop {
            if idx.len() == 1 {
                return;
            }
            let last = idx.len() - 1;
            if idx[last] + 1 < n {
                idx[last] += 1;
                break;
            }
            idx.pop();
        }
    }
}

pub fn junk(rng: &mut Rng) -> String {
    const PIECES: [&str; 22] = [
        "this is not tablegen", ") ] }", "[{ open code", "\"open string", "/* open comment", "// line\n", "def X : A;",
        "#define INNER\n", "#ifdef NESTED\nx\n#endif\n", "#ifndef NESTED2\ny\n#else\nz\n#endif\n", "é€😀", "!bogus(", "..", "$",
        "\n", " ", "0x", "include \"nope.td\"", "class {", "\\", "'", "@",
    ];
    let k = 1 + rng.below(5);
    let mut s = String::new();
    for _ in 0..k {
        s.push_str(PIECES[rng.below(PIECES.len())]);
        s.push(if rng.chance(1, 2) { '\n' } else { ' ' });
    }
    s
}

/// A GRAM program whose statements are interleaved with preprocessor regions; disabled
/// regions contain junk.
pub fn pp_program(rng: &mut Rng) -> String {
    let tree = gram::Gram::new(rng, GramOpts { budget: 60, includes: false, ..Default::default() }).source_file();
    let stmts: Vec<String> = tree.children()[0]
        .children()
        .iter()
        .map(|st| {
            let tr = gram::random_trivia(rng);
            gram::render(&st.token_vec(), tr, rng)
        })
        .collect();
    let mut out = String::new();
    if rng.chance(1, 2) {
        out.push_str("#define ON\n");
    }
    for st in stmts {
        match rng.below(7) {
            0 => {
                out.push_str("#ifdef OFF\n");
                out.push_str(&junk(rng));
                out.push_str("\n#endif\n");
                out.push_str(&st);
            }
            1 => {
                out.push_str("#ifdef OFF\n");
                out.push_str(&junk(rng));
                out.push_str("\n#else\n");
                out.push_str(&st);
                out.push_str("\n#endif\n");
            }
            2 => {
                out.push_str("#ifndef OFF\n");
                out.push_str(&st);
                out.push_str("\n#else\n");
                out.push_str(&junk(rng));
                out.push_str("\n#endif\n");
            }
            3 => {
                out.push_str("#ifndef OFF2\n#define OFF2\n");
                out.push_str(&st);
                out.push_str("\n#ifdef OFF\n");
                out.push_str(&junk(rng));
                out.push_str("\n#ifdef DEEP\n");
                out.push_str(&junk(rng));
                out.push_str("\n#else\n");
                out.push_str(&junk(rng));
                out.push_str("\n#endif\n#endif\n#endif\n");
            }
            4 => {
                // region cut in the middle of a statement
                let cut = mutate::prefix_at(&st, rng);
                let rest = st[cut.len()..].to_string();
                out.push_str(&cut);
                out.push_str("\n#ifdef OFF\n");
                out.push_str(&junk(rng));
                out.push_str("\n#endif\n");
                out.push_str(&rest);
            }
            _ => out.push_str(&st),
        }
        out.push('\n');
    }
    out
}

pub fn deep(rng: &mut Rng, max_depth: usize) -> String {
    let d = 1 + rng.below(max_depth.saturating_sub(6).max(1));
    let kind = rng.below(15);
    let close_all = rng.chance(3, 4);
    let rep = |s: &str, n: usize| s.repeat(n);
    match kind {
        0 => format!("def x {{ list<int> v = {}1{}; }}", rep("[", d), if close_all { rep("]", d) } else { String::new() }),
        1 => format!("def x {{ int v = {}1{}; }}", rep("!add(1, ", d), if close_all { rep(")", d) } else { String::new() }),
        2 => format!("class A<{}int{} x>;", rep("list<", d), if close_all { rep(">", d) } else { String::new() }),
        3 => format!("def x {{ bits<1> v = {}1{}; }}", rep("{", d), if close_all { rep("}", d) } else { String::new() }),
        4 => format!("def x {{ dag v = {}a{}; }}", rep("(a ", d), if close_all { rep(")", d) } else { String::new() }),
        5 => format!("{} def x;", rep("let a = 1 in ", d)),
        6 => format!("{} def x;", rep("if 1 then ", d)),
        7 => format!("{} def x;", rep("foreach i = [1] in ", d)),
        8 => format!("{} def x; {}", rep("let a = 1 in { ", d), if close_all { rep("} ", d) } else { String::new() }),
        9 => format!("def x {{ int v = a{}; }}", rep("[0]", d)),
        10 => format!("def x {{ int v = a{}; }}", rep(".f", d)),
        11 => format!("def x {{ int v = {}1{}; }} def y;", rep("!if(1, 2, ", d), if close_all { rep(")", d) } else { String::new() }),
        12 => format!("def x {{ int v = {}1{}; }} def y;", rep("!cond(1: ", d), if close_all { rep(")", d) } else { String::new() }),
        13 => format!("{} def x; {} def y;", rep("foreach i = [1] in { if 1 then { ", d / 2 + 1), if close_all { rep("} } ", d / 2 + 1) } else { String::new() }),
        _ => format!("def x {{ int v = {}1{}; }}", rep("A<", d), if close_all { rep(">", d) } else { String::new() }),
    }
}

pub fn repeated(rng: &mut Rng, n: usize) -> String {
    let alpha = tok::alphabet();
    let (class, lex) = &alpha[rng.below(alpha.len())];
    // an unbalanced opening bracket repeated n times would exceed the depth bound
    if *class == "punct" && ["[", "{", "(", "<"].contains(&lex.as_str()) {
        return format!("{} ", lex).repeat(200);
    }
    if ["let", "if", "foreach", "in", "then", "else", "!add", "!cond", "!foreach", "!cast"].contains(&lex.as_str()) {
        return format!("{} ", lex).repeat(200);
    }
    let sep = if rng.chance(1, 2) { " " } else { "\n" };
    format!("{}{}", lex, sep).repeat(n)
}

/// Conservative nesting-depth estimate of a raw text (brackets + chained block statements).
pub fn scan_depth(text: &str) -> usize {
    let mut depth: i64 = 0;
    let mut max: i64 = 0;
    let mut chain: i64 = 0;
    let mut word = String::new();
    let flush = |word: &mut String, chain: &mut i64| {
        if matches!(word.as_str(), "in" | "then" | "else") {
            *chain += 1;
        }
        word.clear();
    };
    for c in text.chars() {
        if c.is_ascii_alphanumeric() || c == '_' {
            word.push(c);
            continue;
        }
        flush(&mut word, &mut chain);
        match c {
            '(' | '[' | '{' | '<' => depth += 1,
            ')' | ']' | '}' | '>' => depth = (depth - 1).max(0),
            ';' => chain = 0,
            _ => {}
        }
        max = max.max(depth + chain);
    }
    max as usize
}

pub fn families(ctx: &Ctx, c02: bool) -> Vec<Family> {
    let tier = ctx.tier;
    let mut fams: Vec<Family> = Vec::new();

    // (a) exhaustive token-class sequences
    let alpha = tok::alphabet();
    let n_alpha = alpha.len() as u64;
    fams.push(
        Family::new("tok-seq-len3", n_alpha, move |chunk, _rng, emit| {
            let alpha = tok::alphabet();
            enumerate_from(&alpha, chunk as usize, 3, emit);
        })
        .exhaustive(),
    );
    if tier == Tier::Thorough {
        let small = tok::small_alphabet();
        fams.push(
            Family::new("tok-seq-len4-small", small.len() as u64, move |chunk, _rng, emit| {
                let small = tok::small_alphabet();
                enumerate_from(&small, chunk as usize, 4, emit);
            })
            .exhaustive(),
        );
    }

    // (b) grammar programs, all trivia policies
    let per = 250u64;
    fams.push(Family::new("gram", tier.pick(200, 2000), move |_c, rng, emit| {
        for _ in 0..per {
            let budget = [20, 60, 120, 400][rng.below(4)];
            let (_, text) = gram::program(rng, GramOpts { budget, ..Default::default() });
            if !emit(text_case(text)) {
                return;
            }
        }
    }));

    // (c) token mutations of grammar programs
    fams.push(Family::new("gram-mut", tier.pick(300, 3000), move |_c, rng, emit| {
        let alpha = tok::alphabet();
        for _ in 0..per {
            let tree = gram::Gram::new(rng, GramOpts { budget: 60, ..Default::default() }).source_file();
            let k = 1 + rng.below(2);
            let toks = mutate::mutate_tokens(&tree.token_vec(), rng, k, &alpha);
            let tr = if rng.chance(1, 2) { Trivia::Single } else { Trivia::Mixed };
            if !emit(text_case(gram::render(&toks, tr, rng))) {
                return;
            }
        }
    }));

    // (d) prefixes: every char-boundary prefix of every seed file; sampled cuts of corpus files
    let seeds = corpus::seeds();
    fams.push(
        Family::new("seed-prefixes", seeds.len() as u64, move |chunk, _rng, emit| {
            let (_, text) = &corpus::seeds()[chunk as usize];
            for (i, _) in text.char_indices() {
                if !emit(text_case(text[..i].to_string())) {
                    return;
                }
            }
            emit(text_case(text.clone()));
        })
        .exhaustive(),
    );
    let cuts = tier.pick(256usize, 4096usize);
    fams.push(Family::new("corpus-cuts", corpus::llvm().len() as u64, move |chunk, rng, emit| {
        let (_, text) = &corpus::llvm()[chunk as usize];
        if !emit(text_case(text.clone())) {
            return;
        }
        if !emit(text_case(mutate::to_crlf(text))) {
            return;
        }
        for _ in 0..cuts {
            // prefer small suffix windows so that a cut costs little: take a window of the file
            let start = rng.below(text.len().max(1));
            let mut a = start;
            while !text.is_char_boundary(a) {
                a -= 1;
            }
            let mut z = (a + 1 + rng.below(6000)).min(text.len());
            while !text.is_char_boundary(z) {
                z -= 1;
            }
            let window = if rng.chance(1, 2) { &text[..z.min(20000)] } else { &text[a..z] };
            let mut w = window.len();
            while !window.is_char_boundary(w) {
                w -= 1;
            }
            if !emit(text_case(window[..w].to_string())) {
                return;
            }
        }
    }));

    // (e) character noise and non-ASCII insertion
    fams.push(Family::new("noise", tier.pick(300, 3000), move |_c, rng, emit| {
        for _ in 0..per {
            let base = if rng.chance(1, 3) {
                let s = corpus::seeds();
                s[rng.below(s.len())].1.clone()
            } else {
                gram::program(rng, GramOpts { budget: 60, ..Default::default() }).1
            };
            let k = 1 + rng.below(4);
            let text = match rng.below(3) {
                0 => mutate::char_noise(&base, rng, k),
                1 => mutate::insert_non_ascii(&base, rng, k),
                _ => {
                    let x = mutate::char_noise(&base, rng, k);
                    mutate::insert_non_ascii(&x, rng, 2)
                }
            };
            if !emit(text_case(text)) {
                return;
            }
        }
    }));

    // (f) preprocessor regions inside larger programs
    fams.push(Family::new("pp-embedded", tier.pick(200, 2000), move |_c, rng, emit| {
        for _ in 0..per {
            let mut text = pp_program(rng);
            if rng.chance(1, 6) {
                text = mutate::prefix_at(&text, rng);
            }
            if !emit(text_case(text)) {
                return;
            }
        }
    }));

    // (h) special characters at the very start / end of otherwise ordinary texts
    fams.push(Family::new("special-at-edges", tier.pick(8, 64), move |_c, rng, emit| {
        const SPECIAL: [&str; 12] = ["\u{feff}", "\u{0}", "\u{a0}", "\u{b}", "\u{c}", "\u{85}", "\u{2028}", "\u{200b}", "\r", "\u{feff}\u{feff}", "\u{fffd}", "\u{10ffff}"];
        for _ in 0..20 {
            let base = if rng.chance(1, 2) {
                let s = corpus::seeds();
                s[rng.below(s.len())].1.clone()
            } else {
                gram::program(rng, GramOpts { budget: 30, ..Default::default() }).1
            };
            for sp in SPECIAL {
                if !emit(text_case(format!("{sp}{base}"))) || !emit(text_case(format!("{base}{sp}"))) {
                    return;
                }
            }
        }
    }));

    if c02 {
        // (g) adversarial unterminated constructs at every token boundary
        fams.push(Family::new("unterminated-everywhere", tier.pick(40, 400), move |_c, rng, emit| {
            for _ in 0..6 {
                let tree = gram::Gram::new(rng, GramOpts { budget: 40, ..Default::default() }).source_file();
                let toks = tree.token_vec();
                for i in 0..=toks.len() {
                    let ins = mutate::UNTERMINATED[rng.below(mutate::UNTERMINATED.len())];
                    let mut v: Vec<String> = toks.clone();
                    v.insert(i, ins.to_string());
                    if !emit(text_case(v.join(" "))) {
                        return;
                    }
                }
            }
        }));
    }
    // bit ranges and list slices: every sequence of up to three pieces-or-separators inside the five
    // places where a range list is read (the sign of a number may be the separator: `3-0` is lexed `3` `-0`)
    fams.push(
        Family::new("range-pieces", 5, move |ctx_i, _rng, emit| {
            const CTX: [(&str, &str); 5] = [("defvar a = b{", "};"), ("def d { let f{", "} = 1; }"), ("foreach i = {", "} in def x#i;"), ("defvar s = l[", "];"), ("def e { bits<4> v = w{", "}; }")];
            const PIECE: [&str; 14] = ["0", "3", "-3", "+3", "-0", "+0", "0x1F", "0b11", "...", "-", "+", ",", "x", "7-4"];
            let (open, close) = CTX[ctx_i as usize % CTX.len()];
            for a in 0..PIECE.len() {
                for b in 0..=PIECE.len() {
                    for c in 0..=PIECE.len() {
                        if b == PIECE.len() && c != PIECE.len() {
                            continue;
                        }
                        let mut mid = String::from(PIECE[a]);
                        for k in [b, c] {
                            if k < PIECE.len() {
                                mid.push_str(PIECE[k]);
                            }
                        }
                        // written tight, and with blanks between the pieces
                        let spaced = [Some(a), (b < PIECE.len()).then_some(b), (c < PIECE.len()).then_some(c)].iter().flatten().map(|k| PIECE[*k]).collect::<Vec<_>>().join(" ");
                        for m in [mid.clone(), spaced] {
                            if !emit(text_case(format!("{open}{m}{close}"))) {
                                return;
                            }
                        }
                    }
                }
            }
        })
        .exhaustive(),
    );
    // deep nesting and long repetitions: losslessness (C01) and totality (C02) both quantify over them
    {
        fams.push(Family::new("deep-nesting", tier.pick(16, 64), move |_c, rng, emit| {
            for _ in 0..40 {
                if !emit(text_case(deep(rng, 256))) {
                    return;
                }
            }
        }));
        // one lexeme repeated 150000 times, for every lexeme that opens no bracket and chains no block:
        // the nesting depth of such a text is zero however long it is, so it is parsed on a thread with a
        // small stack (kind "flat": 512 KiB) - stack use that grows with the length of a flat text overflows
        fams.push(
            Family::new("flat-repetition-small-stack", 1, move |_c, _rng, emit| {
                for (class, lex) in tok::alphabet() {
                    if class == "punct" && ["[", "{", "(", "<"].contains(&lex.as_str()) {
                        continue;
                    }
                    // keywords after which the parser reads a nested statement (or block, assumed open when
                    // the `{` is missing): repeating them IS nesting as far as the parser is concerned
                    if ["let", "if", "foreach", "in", "then", "else", "defset", "!add", "!cond", "!foreach", "!cast"].contains(&lex.as_str()) {
                        continue;
                    }
                    for sep in ["", " ", "\n"] {
                        if !emit(serde_json::json!({"kind": "flat", "lexeme": lex, "sep": sep, "n": 150_000})) {
                            return;
                        }
                    }
                }
                for lex in ["/*", "/*/", "*/", "/* a */", "//", "#ifdef X\n#endif", "def a;", "class A { int x; }", "\"s\"", "$", "0x", "[{ c }]"] {
                    if !emit(serde_json::json!({"kind": "flat", "lexeme": lex, "sep": "\n", "n": 150_000})) {
                        return;
                    }
                }
            })
            .exhaustive(),
        );
        fams.push(Family::new("repeated-token", tier.pick(16, 64), move |_c, rng, emit| {
            for _ in 0..8 {
                if !emit(text_case(repeated(rng, 10_000))) {
                    return;
                }
            }
        }));
    }
    fams
}
