//! C13 — diagnostics are sound and complete on the supported core language.
use serde_json::json;

use super::semcase::{program_of, sem_case, show, workspace_of};
use crate::fw::*;
use crate::ws::r2;

pub struct C13;

pub const FAULTS: [&str; 14] = [
    "required-argument-missing-before-named",
    "undefined-field",
    "undefined-let-field",
    "undefined-class",
    "undefined-multiclass",
    "undefined-identifier",
    "missing-include",
    "dropped-template-argument",
    "surplus-template-argument",
    "type-incompatible-value",
    "operator-too-many-operands",
    "operator-too-few-operands",
    "deleted-token-root",
    "deleted-token-header",
];

/// one text edit: (file, range to replace, replacement, site range in the new text)
struct Edit {
    file: usize,
    range: (usize, usize),
    text: String,
    /// the diagnostic must intersect this range of the edited text (inclusive ends)
    site: (usize, usize),
    what: String,
}

fn wrong_typed(ty: &crate::gen::sem::Ty) -> &'static str {
    use crate::gen::sem::Ty;
    // a literal for which no TableGen conversion to `ty` exists
    match ty {
        Ty::Int | Ty::Bit | Ty::Bits(_) => "\"oops\"",
        Ty::Str | Ty::Code => "[1, 2]",
        Ty::Dag => "[1, 2]",
        Ty::List(_) => "\"oops\"",
        Ty::Class(_) => "\"oops\"",
    }
}

fn pick_edit(p: &crate::gen::sem::Program, class: &str, pick: usize) -> Option<Edit> {
    use crate::gen::sem::{DeclKind, Role};
    let ident_edit = |occ: &crate::gen::sem::Occ, new: String, what: String| Edit {
        file: occ.file,
        range: occ.range,
        site: (occ.range.0, occ.range.0 + new.len()),
        text: new,
        what,
    };
    let uses_of = |kinds: &[DeclKind]| -> Vec<&crate::gen::sem::Occ> {
        p.occs.iter().filter(|o| matches!(&o.role, Role::Use(d) if kinds.contains(&p.decls[*d].kind))).collect()
    };
    match class {
        "undefined-class" => {
            let c = uses_of(&[DeclKind::Class]);
            let o = c.get(pick % c.len().max(1))?;
            Some(ident_edit(o, "UndefinedClass".into(), "class name replaced by an undeclared one".into()))
        }
        "undefined-multiclass" => {
            let c = uses_of(&[DeclKind::Multiclass]);
            let o = c.get(pick % c.len().max(1))?;
            Some(ident_edit(o, "UndefinedMulticlass".into(), "multiclass name replaced by an undeclared one".into()))
        }
        "undefined-identifier" => {
            let mut c = uses_of(&[DeclKind::Defvar, DeclKind::ForeachVar, DeclKind::BangVar, DeclKind::TemplateArg, DeclKind::Field, DeclKind::Def, DeclKind::Defset]);
            // (not inside the name of a def: there an identifier that denotes nothing stands for itself,
            // `def R#undefined_name` is a record called Rundefined_name)
            c.retain(|o| !p.spans.iter().any(|sp| sp.2 == "iterator-in-def-name" && sp.0 == o.file && sp.1 .0 <= o.range.0 && o.range.1 <= sp.1 .1));
            // (the names of the records that defms and loops define are values as well, with no identifier
            // that declares them)
            let composed: Vec<crate::gen::sem::Occ> = p.spans.iter().filter(|sp| sp.2 == "composed-record-name").map(|sp| crate::gen::sem::Occ { file: sp.0, range: sp.1, role: Role::Use(0) }).collect();
            c.extend(composed.iter());
            let o = c.get(pick % c.len().max(1))?;
            // a name that is declared nowhere, or - every other time - a near miss: the name that stands
            // there with one more character (generated names end in a number, none of them in `x`). Not in
            // a program that computes the names of records (`def R#i`): whatever begins like such a
            // record may be one, for all the server knows
            let computed_names = p.spans.iter().any(|sp| sp.2 == "iterator-in-def-name");
            let old = p.files[o.file].1.get(o.range.0..o.range.1).unwrap_or("");
            if (pick / c.len().max(1)) % 2 == 1 && !computed_names && !old.is_empty() {
                return Some(ident_edit(o, format!("{old}x"), "identifier in a value extended by one character (no such name)".into()));
            }
            Some(ident_edit(o, "undefined_name".into(), "identifier in a value replaced by an undeclared one".into()))
        }
        "undefined-field" => {
            // a field read through `.f` (the character before the identifier is a dot)
            let c: Vec<&crate::gen::sem::Occ> = p
                .occs
                .iter()
                .filter(|o| matches!(&o.role, Role::Use(d) if p.decls[*d].kind == DeclKind::Field))
                .filter(|o| o.range.0 > 0 && p.files[o.file].1.as_bytes()[o.range.0 - 1] == b'.')
                .collect();
            let o = c.get(pick % c.len().max(1))?;
            Some(ident_edit(o, "no_such_field".into(), "field name after '.' replaced by an undeclared one".into()))
        }
        "undefined-let-field" => {
            // the field named by a `let` in a record body (whole-field overrides only: a bit range
            // after an unknown name reads the same)
            let c: Vec<&crate::gen::sem::LetInfo> = p.lets.iter().filter(|l| p.files[l.file].1.as_bytes().get(l.name_range.1) != Some(&b'{')).collect();
            let l = c.get(pick % c.len().max(1))?;
            let new = "no_such_field".to_string();
            Some(Edit { file: l.file, range: l.name_range, site: (l.name_range.0, l.name_range.0 + new.len()), text: new, what: "field named by a let replaced by an undeclared one".into() })
        }
        "missing-include" => {
            let file = pick % p.files.len();
            let t = "include \"nowhere.td\"\n".to_string();
            Some(Edit { file, range: (0, 0), site: (0, t.len() - 1), text: t, what: "include of a missing file added".into() })
        }
        "dropped-template-argument" => {
            let c: Vec<_> = p.classrefs.iter().filter(|r| r.required >= 1 && r.args_range.is_some()).collect();
            let r = c.get(pick % c.len().max(1))?;
            let ar = r.args_range?;
            Some(Edit { file: r.file, range: ar, text: String::new(), site: (r.name_range.0, ar.0), what: "argument list with a required template argument removed".into() })
        }
        "required-argument-missing-before-named" => {
            // `K<1, p3 = 5>` -> `K<p3 = 5>`: the positional arguments go, the named ones stay
            let c: Vec<_> = p.classrefs.iter().filter(|r| r.required >= 1 && !r.positional.is_empty() && r.first_named.is_some() && r.args_range.is_some()).collect();
            let r = c.get(pick % c.len().max(1))?;
            let ar = r.args_range?;
            let fnamed = r.first_named?;
            let removed = fnamed - (ar.0 + 1);
            Some(Edit { file: r.file, range: (ar.0 + 1, fnamed), text: String::new(), site: (r.name_range.0, ar.1 - removed), what: "required positional template arguments removed, named arguments kept".into() })
        }
        "surplus-template-argument" => {
            let c: Vec<_> = p.classrefs.iter().filter(|r| r.positional.len() == r.params).collect();
            let r = c.get(pick % c.len().max(1))?;
            match r.args_range {
                Some(ar) => {
                    let ins = if r.params == 0 { "0".to_string() } else { ", 0".to_string() };
                    Some(Edit { file: r.file, range: (ar.1 - 1, ar.1 - 1), site: (r.name_range.0, ar.1 + ins.len()), text: ins, what: "one template argument too many".into() })
                }
                None => Some(Edit { file: r.file, range: (r.name_range.1, r.name_range.1), text: "<0>".into(), site: (r.name_range.0, r.name_range.1 + 3), what: "template argument given to a class without parameters".into() }),
            }
        }
        "type-incompatible-value" => {
            let c = &p.typed_sites;
            let (file, range, ty, ctx) = c.get(pick % c.len().max(1))?;
            let new = wrong_typed(ty).to_string();
            let mut site = (range.0, range.0 + new.len());
            if *ctx == "list-element" {
                // the elements of a list literal no longer agree: which of them is the odd one is a matter
                // of view (TableGen reports the end of the literal), the site is the literal
                let literal = p.spans.iter().filter(|s| s.0 == *file && s.2 == "list-literal" && s.1 .0 <= range.0 && range.1 <= s.1 .1 && s.1 .1 - s.1 .0 > range.1 - range.0).min_by_key(|s| s.1 .1 - s.1 .0)?;
                site = (literal.1 .0, literal.1 .1 + new.len() - (range.1 - range.0));
            }
            Some(Edit { file: *file, range: *range, site, text: new, what: format!("{ctx} of type {} replaced by a value of an inconvertible type", ty.render()) })
        }
        "operator-too-many-operands" | "operator-too-few-operands" => {
            const FIXED: [&str; 14] = ["!sub", "!size", "!if", "!shl", "!tolower", "!eq", "!lt", "!not", "!empty", "!ne", "!tail", "!head", "!interleave", "!con"];
            let c: Vec<_> = p.bang_sites.iter().filter(|b| FIXED.contains(&b.1.as_str())).collect();
            let (file, op, close, _n, start) = c.get(pick % c.len().max(1))?;
            if class == "operator-too-many-operands" {
                Some(Edit { file: *file, range: (*close, *close), text: ", 0".into(), site: (*start, *close + 4), what: format!("one operand too many for {op}") })
            } else {
                // drop the last operand: everything from the last comma at the operator's own level (or, with a
                // single operand, from behind the opening parenthesis) - by the tokens, strings may hold anything
                let text = &p.files[*file].1;
                let (toks, _) = super::c14::impl_lex(text);
                let mut depth = 0i32;
                let mut cut: Option<(usize, bool)> = None;
                for t in toks.iter().filter(|t| !t.0.is_trivia() && t.1 >= *start && t.2 <= *close) {
                    match &text[t.1..t.2] {
                        "(" | "[" | "{" | "<" => {
                            if depth == 0 && cut.is_none() {
                                cut = Some((t.2, true));
                            }
                            depth += 1;
                        }
                        ")" | "]" | "}" | ">" => depth -= 1,
                        "," if depth == 1 => cut = Some((t.1, false)),
                        _ => {}
                    }
                }
                let (from, _) = cut?;
                Some(Edit { file: *file, range: (from, *close), text: String::new(), site: (*start, from + 1), what: format!("one operand too few for {op}") })
            }
        }
        "deleted-token-root" | "deleted-token-header" => {
            let file = if class == "deleted-token-root" { 0 } else { 1 + pick % p.files.len().saturating_sub(1).max(1) };
            let text = &p.files.get(file)?.1;
            // non-trivia tokens by the repository's own lexer
            let (toks, _) = super::c14::impl_lex(text);
            // directives (and their macro names) are not tokens the parser sees
            use syntax::token_kind::TokenKind as K;
            let mut keep = Vec::new();
            let mut after_directive = false;
            for t in toks.into_iter().filter(|t| !t.0.is_trivia()) {
                let is_dir = matches!(t.0, K::Ifdef | K::Ifndef | K::Else | K::Endif | K::Define);
                if is_dir {
                    after_directive = matches!(t.0, K::Ifdef | K::Ifndef | K::Define);
                    continue;
                }
                if after_directive && t.0 == K::Id {
                    after_directive = false;
                    continue;
                }
                after_directive = false;
                keep.push(t);
            }
            let toks = keep;
            // `}` is not locally detectable (the block just goes on), and `=` before `{` reads as a bit-range suffix
            let cands: Vec<usize> = (0..toks.len())
                .filter(|&i| matches!(&text[toks[i].1..toks[i].2], ";" | "=" | ":"))
                .filter(|&i| {
                    // … and any of them before `[`, `{` or `.`, which then read as a suffix of the value before
                    let next = toks.get(i + 1).map(|t| &text[t.1..t.2]).unwrap_or("");
                    !(matches!(&text[toks[i].1..toks[i].2], "=" | ":") && matches!(next, "{" | "[" | "."))
                })
                .filter(|&i| {
                    // the `:` of an anonymous def/defm: without it the class reference reads as the record's name
                    let prev = if i > 0 { &text[toks[i - 1].1..toks[i - 1].2] } else { "" };
                    !(&text[toks[i].1..toks[i].2] == ":" && matches!(prev, "def" | "defm"))
                })
                .collect();
            let i = *cands.get(pick % cands.len().max(1))?;
            let prev_end = if i > 0 { toks[i - 1].2 } else { 0 };
            let removed = toks[i].2 - toks[i].1;
            let next_end = toks.get(i + 1).map(|t| t.2 - removed).unwrap_or(text.len() - removed);
            Some(Edit { file, range: (toks[i].1, toks[i].2), text: String::new(), site: (prev_end, next_end), what: format!("required token {:?} deleted", &text[toks[i].1..toks[i].2]) })
        }
        _ => None,
    }
}

fn seeded(p: &crate::gen::sem::Program, class: &str, pick: usize) -> Verdict {
    let Some(e) = pick_edit(p, class, pick) else { return Verdict::Skip("no-eligible-site") };
    let mut files = p.files.clone();
    files[e.file].1.replace_range(e.range.0..e.range.1, &e.text);
    let ws = crate::ws::Workspace::new(&files, &files[0].0);
    let a = ws.analysis();
    let diags = a.diagnostics();
    let Some(fid) = ws.fs.id_of(&crate::ws::abs(&files[e.file].0)) else { return Verdict::Skip("seeded-file-not-in-workspace") };
    let in_file = diags.get(&fid).cloned().unwrap_or_default();
    let hit = in_file.iter().any(|d| {
        let (s, z) = r2(d.location.range);
        s <= e.site.1 && z >= e.site.0
    });
    let show_files = files.iter().map(|(n, t)| format!("--- {n}\n{t}")).collect::<Vec<_>>().join("\n");
    if !hit {
        let where_ = if e.file == 0 { "root" } else { "included-file" };
        return Verdict::Fail(Failure::new(
            "C13.fault-not-reported",
            format!("C13.fault-not-reported:{class}:{where_}"),
            format!(
                "{} in {} at {:?} (site {:?}): no diagnostic there; diagnostics of that file: {:?}\n{show_files}",
                e.what,
                files[e.file].0,
                e.range,
                e.site,
                in_file.iter().map(|d| (r2(d.location.range), d.message.clone())).collect::<Vec<_>>()
            ),
        ));
    }
    // a fault in the root does not touch the files it includes - unless one of them uses what the root
    // declares in front of the include (an include is textual)
    let header_uses_root = p.occs.iter().any(|o| o.file != 0 && matches!(&o.role, crate::gen::sem::Role::Use(d) if p.decls[*d].file == 0));
    if e.file == 0 && !header_uses_root {
        for (f, ds) in &diags {
            if *f != fid {
                if let Some(d) = ds.first() {
                    return Verdict::Fail(Failure::new(
                        "C13.diagnostic-in-untouched-file",
                        format!("C13.diagnostic-in-untouched-file:{class}"),
                        format!("{} in the root, but {:?} reports {:?} {}\n{show_files}", e.what, ws.fs.path_of(*f), r2(d.location.range), d.message),
                    ));
                }
            }
        }
    }
    Verdict::Pass { nontrivial: true, labels: vec![if e.file == 0 { "fault-in-root" } else { "fault-in-included-file" }] }
}

fn message_template(m: &str) -> String {
    // message with identifiers/numbers collapsed: the root-cause key of a false positive
    let mut out = String::new();
    let mut in_word = false;
    for w in m.split(' ') {
        let _ = in_word;
        let generic = w.chars().any(|c| c.is_ascii_digit()) || w.starts_with('\'') || w.starts_with('"');
        if !out.is_empty() {
            out.push(' ');
        }
        out.push_str(if generic { "_" } else { w });
        in_word = true;
    }
    out.chars().take(60).collect()
}

impl Property for C13 {
    fn id(&self) -> &'static str {
        "C13"
    }
    fn level(&self) -> &'static str {
        "fault_enumeration"
    }
    fn rule(&self) -> String {
        "well-formed SEM programs (see C05; no probes) must produce no diagnostic in any file; then one fault is seeded per case (see the fault classes in the family names) and >=1 diagnostic must intersect the seeded site in the seeded file, and no diagnostic may appear in files the fault does not touch. distinct = (seed, n, fault); non-trivial = program with >=3 declaration kinds and >=1 bang operator (clean), or any seeded case. Family real-files: the vendored files that llvm-tblgen-14 accepts as a root of their own (14 LLVM-14 headers - Target.td, Intrinsics.td with all target intrinsics, ValueTypes.td, OptParser.td, OMP.td, … - and five hand-written backend descriptions), analysed with the whole include tree, in LF and CRLF form, must produce no diagnostic".into()
    }
    fn families(&self, ctx: &Ctx) -> Vec<Family> {
        let mut v = vec![Family::new("well-formed", ctx.tier.pick(400, 40000), |_c, rng, emit| {
            for _ in 0..50 {
                if !emit(sem_case(rng, false)) {
                    return;
                }
            }
        })];
        // real files: those of the vendored LLVM headers that llvm-tblgen-14 accepts as a root of their own
        // (audit result, corpus/llvm14-accepted-standalone.txt), analysed with the whole include tree
        // available; also with CRLF line endings
        v.push(
            Family::new("real-files", 1, |_c, _rng, emit| {
                let list = std::fs::read_to_string(crate::fw::sup::verif_dir().join("corpus/llvm14-accepted-standalone.txt")).unwrap_or_default();
                for rel in list.lines().map(str::trim).filter(|l| !l.is_empty()) {
                    for crlf in [false, true] {
                        if !emit(json!({"kind": "real-file", "root": rel, "crlf": crlf})) {
                            return;
                        }
                    }
                }
            })
            .exhaustive(),
        );
        for class in FAULTS {
            v.push(Family::new(&format!("fault:{class}"), ctx.tier.pick(60, 6000), move |_c, rng, emit| {
                for _ in 0..50 {
                    let mut c = sem_case(rng, false);
                    c["fault"] = json!({"class": class, "pick": rng.below(1000)});
                    if !emit(c) {
                        return;
                    }
                }
            }));
        }
        v
    }
    fn run_case(&self, _ctx: &Ctx, case: &Case) -> Verdict {
        if case["kind"] == "manual" {
            return super::semcase::manual(case, "C13");
        }
        if case["kind"] == "real-file" {
            let Some(rel) = case["root"].as_str() else { return Verdict::Skip("malformed-case") };
            let crlf = case["crlf"].as_bool() == Some(true);
            let files: Vec<(String, String)> = crate::gen::corpus::llvm()
                .iter()
                .map(|(r, t)| (format!("{}/{r}", crate::ws::INC_DIR), if crlf { t.replace("\r\n", "\n").replace('\n', "\r\n") } else { t.clone() }))
                .collect();
            let root = format!("{}/{rel}", crate::ws::INC_DIR);
            if !files.iter().any(|f| f.0 == root) {
                return Verdict::Skip("malformed-case");
            }
            let ws = crate::ws::Workspace::new(&files, &root);
            let a = ws.analysis();
            for (f, ds) in a.diagnostics() {
                if let Some(d) = ds.first() {
                    let path = ws.fs.path_of(f).unwrap_or_default();
                    let (s, e) = r2(d.location.range);
                    let text = ws.text_of(f).cloned().unwrap_or_default();
                    let snippet: String = text.get(s..e.min(text.len())).unwrap_or("?").chars().take(120).collect();
                    return Verdict::Fail(Failure::new(
                        "C13.false-positive",
                        format!("C13.false-positive:real-file|{}", message_template(&d.message)),
                        format!("{rel} (accepted by llvm-tblgen-14 as it stands) analysed as root: {path}:{s}..{e} {snippet:?}: {} ({} diagnostics in that file)", d.message, ds.len()),
                    ));
                }
            }
            return Verdict::pass(true);
        }
        let Some(p) = program_of(case) else { return Verdict::Skip("malformed-case") };
        if let Some(f) = case.get("fault") {
            return seeded(&p, f["class"].as_str().unwrap_or(""), f["pick"].as_u64().unwrap_or(0) as usize);
        }
        let ws = workspace_of(&p);
        let a = ws.analysis();
        let diags = a.diagnostics();
        for (f, ds) in &diags {
            if let Some(d) = ds.first() {
                let path = ws.fs.path_of(*f).unwrap_or_default();
                let (s, e) = r2(d.location.range);
                let text = ws.text_of(*f).cloned().unwrap_or_default();
                let snippet: String = text.get(s..e.min(text.len())).unwrap_or("?").chars().take(80).collect();
                let mut tmpl = message_template(&d.message);
                // narrower root cause: the (innermost) uncommon construct the diagnostic points into
                let fi = p.files.iter().position(|x| crate::ws::abs(&x.0) == path);
                if let Some(sp) = p.spans.iter().filter(|sp| sp.2 != "list-literal" && sp.2 != "composed-record-name" && Some(sp.0) == fi && sp.1 .0 <= s && s < sp.1 .1).min_by_key(|sp| sp.1 .1 - sp.1 .0) {
                    tmpl = format!("{}|{}", sp.2, tmpl);
                }
                return Verdict::Fail(Failure::new(
                    "C13.false-positive",
                    format!("C13.false-positive:{tmpl}"),
                    format!("well-formed program, but {path}:{s}..{e} {:?}: {}\n{}", snippet, d.message, show(&p)),
                ));
            }
        }
        let _ = json!(null);
        Verdict::pass(p.feat.decl_kinds.len() >= 3 && p.feat.bang_ops >= 1)
    }
    fn shrink_keep(&self) -> &'static [&'static str] {
        &["kind", "seed", "opts", "fault"]
    }
}
