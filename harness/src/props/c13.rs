//! C13 — diagnostics are sound and complete on the supported core language.
use serde_json::json;

use super::semcase::{program_of, sem_case, show, workspace_of};
use crate::fw::*;
use crate::ws::r2;

pub struct C13;

fn message_template(m: &str) -> String {
    // message with identifiers/numbers collapsed: the root-cause key of a false positive
    let mut out = String::new();
    let mut in_word = false;
    for w in m.split(' ') {
        let _ = in_word;
        let generic = w.chars().any(|c| c.is_ascii_digit()) || w.starts_with('\'') || w.starts_with('"');
        if !out.is_empty() {
            out.push(' ');
        }
        out.push_str(if generic { "_" } else { w });
        in_word = true;
    }
    out.chars().take(60).collect()
}

impl Property for C13 {
    fn id(&self) -> &'static str {
        "C13"
    }
    fn rule(&self) -> String {
        "well-formed SEM programs (see C05; no probes) must produce no diagnostic in any file; then one fault is seeded per case (see the fault classes in the family names) and >=1 diagnostic must intersect the seeded site in the seeded file, and no diagnostic may appear in files the fault does not touch. distinct = (seed, n, fault); non-trivial = program with >=3 declaration kinds and >=1 bang operator (clean), or any seeded case".into()
    }
    fn families(&self, ctx: &Ctx) -> Vec<Family> {
        vec![Family::new("well-formed", ctx.tier.pick(100, 2000), |_c, rng, emit| {
            for _ in 0..50 {
                if !emit(sem_case(rng, false)) {
                    return;
                }
            }
        })]
    }
    fn run_case(&self, _ctx: &Ctx, case: &Case) -> Verdict {
        if case["kind"] == "manual" {
            return super::semcase::manual(case, "C13");
        }
        let Some(p) = program_of(case) else { return Verdict::Skip("malformed-case") };
        let ws = workspace_of(&p);
        let a = ws.analysis();
        let diags = a.diagnostics();
        for (f, ds) in &diags {
            if let Some(d) = ds.first() {
                let path = ws.fs.path_of(*f).unwrap_or_default();
                let (s, e) = r2(d.location.range);
                let text = ws.text_of(*f).cloned().unwrap_or_default();
                let snippet: String = text.get(s..e.min(text.len())).unwrap_or("?").chars().take(80).collect();
                let mut tmpl = message_template(&d.message);
                // narrower root cause: the (innermost) uncommon construct the diagnostic points into
                let fi = p.files.iter().position(|x| crate::ws::abs(&x.0) == path);
                if let Some(sp) = p.spans.iter().filter(|sp| Some(sp.0) == fi && sp.1 .0 <= s && s < sp.1 .1).min_by_key(|sp| sp.1 .1 - sp.1 .0) {
                    tmpl = format!("{}|{}", sp.2, tmpl);
                }
                return Verdict::Fail(Failure::new(
                    "C13.false-positive",
                    format!("C13.false-positive:{tmpl}"),
                    format!("well-formed program, but {path}:{s}..{e} {:?}: {}\n{}", snippet, d.message, show(&p)),
                ));
            }
        }
        let _ = json!(null);
        Verdict::pass(p.feat.decl_kinds.len() >= 3 && p.feat.bang_ops >= 1)
    }
    fn shrink_keep(&self) -> &'static [&'static str] {
        &["kind", "seed", "opts", "fault"]
    }
}
