//! C09 — location fidelity: ranges sent to the client denote the analysed span.
use std::collections::BTreeMap;
use std::time::Duration;

use ide::file_system::FileId;
use serde_json::{json, Value};

use super::semcase::program_of;
use crate::fw::*;
use crate::lspc::{Client, TempWs};
use crate::refm::pos::RefPos;
use crate::sched::Sched;
use crate::ws::{frange, id_tokens_by_parse, pos, r2, Workspace};

pub struct C09;

/// Re-shapes the lines of a file without changing its token sequence: pushes everything down by
/// some lines, optionally CRLF, optionally non-ASCII comment lines.
fn restyle(text: &str, rng: &mut Rng, fault: bool) -> String {
    let mut out = String::new();
    for _ in 0..rng.below(6) {
        // (among them: characters that other tools treat as line breaks - form feed, vertical tab, U+0085,
        // U+2028, U+2029 - in a comment and as blanks between tokens; none of them is a line break for LSP)
        out.push_str(["\n", "// pushed down\n", "// ünïcödé 😀 €\n", "/* block\n   comment */\n", "// sep\u{2028}arator ne\u{85}l ff\u{c} vt\u{b} ps\u{2029} end\n", "\u{c}\n", "defvar page\u{c}=\u{2028}1\u{b};\u{85}\n"][rng.below(7)]);
    }
    let crlf = rng.chance(1, 2);
    let nonascii = rng.chance(1, 2);
    for line in text.split_inclusive('\n') {
        if nonascii && rng.chance(1, 6) && !line.trim_start().starts_with("//") {
            // a separate, detached comment line (a blank line follows so that doc comments stay as they are)
        }
        out.push_str(line);
    }
    if fault {
        out.push_str("\ndef fault_undefined_parent : NoSuchClass;\ndefvar fault_v = no_such_symbol;\n");
    }
    if nonascii {
        // accents, a character of every UTF-8 length and the first three-byte character (lead byte E0)
        out = out.replace("\"s", "\"é€😀\u{800}\u{ffff}s");
    }
    if crlf {
        out = out.replace("\r\n", "\n").replace('\n', "\r\n");
    }
    // sometimes mixed line endings: each line break becomes LF, CRLF or (after `;` / `}`) a lone CR
    if rng.chance(1, 5) {
        let src = out.replace("\r\n", "\n");
        let mut mixed = String::with_capacity(src.len() + 16);
        let mut prev = ' ';
        for ch in src.chars() {
            if ch == '\n' {
                match rng.below(if matches!(prev, ';' | '}') { 5 } else { 4 }) {
                    0 | 1 => mixed.push('\n'),
                    2 | 3 => mixed.push_str("\r\n"),
                    _ => mixed.push('\r'),
                }
            } else {
                mixed.push(ch);
            }
            prev = ch;
        }
        out = mixed;
    }
    // now and then: a byte order mark at the start of the file (three bytes, one UTF-16 unit, in
    // front of everything), and comment lines holding characters that other tools treat as line
    // breaks (U+2028, U+0085, form feed) - none of them is a line break for LSP
    if rng.chance(1, 8) {
        out.insert(0, '\u{feff}');
    }
    if rng.chance(1, 8) {
        out.push_str("// sep\u{2028}arator ne\u{85}l ff\u{c} end\n");
    }
    out
}

fn lsp_range(rp: &RefPos, s: usize, e: usize) -> Value {
    if !rp.is_boundary(s) || !rp.is_boundary(e) {
        // an ide-level range that is not on character boundaries has no position (never equal to an answer)
        return json!({"not-on-a-character-boundary": [s, e]});
    }
    let (sl, sc) = rp.to_pos(s);
    let (el, ec) = rp.to_pos(e);
    json!({"start": {"line": sl, "character": sc}, "end": {"line": el, "character": ec}})
}

fn lsp_pos(rp: &RefPos, o: usize) -> Value {
    if !rp.is_boundary(o) {
        return json!({"not-on-a-character-boundary": o});
    }
    let (l, c) = rp.to_pos(o);
    json!({"line": l, "character": c})
}

fn sorted(mut v: Vec<Value>) -> Vec<Value> {
    v.sort_by_key(|x| x.to_string());
    v
}

struct Session {
    tw: TempWs,
    files: Vec<(String, String)>, // (absolute path, text); files[0] = root
    ws: Workspace,
}

impl Session {
    fn uri_of(&self, fid: FileId) -> String {
        format!("file://{}", self.ws.fs.path_of(fid).unwrap_or_default())
    }
    fn text_of(&self, fid: FileId) -> String {
        self.ws.text_of(fid).cloned().unwrap_or_default()
    }
}

fn symbol_json(s: &ide::handlers::document_symbol::DocumentSymbol, rp: &RefPos) -> Value {
    let r = lsp_range(rp, r2(s.range).0, r2(s.range).1);
    let mut v = json!({"name": s.name.to_string(), "range": r, "selectionRange": r});
    if !s.children.is_empty() {
        v["children"] = Value::Array(s.children.iter().map(|c| symbol_json(c, rp)).collect());
    }
    v
}

fn strip_symbol(v: &Value) -> Value {
    let mut o = json!({"name": v["name"], "range": v["range"], "selectionRange": v["selectionRange"]});
    if let Some(ch) = v["children"].as_array() {
        if !ch.is_empty() {
            o["children"] = Value::Array(ch.iter().map(strip_symbol).collect());
        }
    }
    o
}

/// the same bytes with fewer line breaks: `\n` (and a preceding `\r`) after `;` or `}` becomes a space,
/// unless the next line starts with `#`
pub fn relayout(text: &str) -> String {
    let mut b = text.as_bytes().to_vec();
    for i in 0..b.len() {
        if b[i] != b'\n' || b.get(i + 1) == Some(&b'#') {
            continue;
        }
        let mut k = i;
        if k > 0 && b[k - 1] == b'\r' {
            k -= 1;
        }
        if k > 0 && matches!(b[k - 1], b';' | b'}') {
            for x in &mut b[k..=i] {
                *x = b' ';
            }
        }
    }
    String::from_utf8(b).unwrap_or_else(|_| text.to_string())
}

impl Property for C09 {
    fn id(&self) -> &'static str {
        "C09"
    }
    fn rule(&self) -> String {
        "SEM programs (root + headers, plus seeded semantic faults in every file so that included files carry diagnostics) written to a scratch directory with per-file line structure: 0..5 extra leading lines (blank / comment / non-ASCII comment / multi-line block comment), LF, CRLF or mixed line endings (LF / CRLF / lone CR per line), non-ASCII text inside strings, sometimes a byte order mark in front and comment lines with U+2028/U+0085/form feed. Real server: didOpen(root), then definition and references at every identifier of the root, documentSymbol, foldingRange, documentLink, inlayHint(whole file), and the published diagnostics of every file; then a didChange of the root to the same bytes with a different line structure (line breaks after ';' and '}' turned into spaces: byte offsets stay, lines and columns move), after which the diagnostics the client holds for every file and the documentSymbol answer are compared again; then the first header is opened too (it is the root of its own workspace: diagnostics and outline compared) and edited (same bytes, moved line breaks), the former root is touched again, and definition/references at up to 80 identifiers, documentSymbol and inlayHint of the now open *included* document are compared. Oracle: the ide-level result for the same files (separate AnalysisHost) converted with the reference position mapper against the text of the file each location names; URIs and ranges must match exactly (reference lists and diagnostics as multisets); independently of that oracle, every definition range, read in the text of the file it names, must spell the identifier asked about. distinct = (seed, n); non-trivial = a definition or reference in another file whose line differs from the same offset's line in the requesting file, or a root diagnostic that had to be re-published with moved lines after the relayout".into()
    }
    fn assumptions(&self) -> Vec<String> {
        vec!["the ide-level analysis of the same files is taken as 'the span the analysis computed' (its own correctness is C05/C17's business); 'idle' = all spawned tasks ended (verif hook counters)".into()]
    }
    fn families(&self, ctx: &Ctx) -> Vec<Family> {
        vec![Family::new("sem-sessions", ctx.tier.pick(200, 10000), |_c, rng, emit| {
            for _ in 0..10 {
                if !emit(json!({"kind": "sem-lsp", "seed": rng.next() >> 16, "n": 2 + rng.below(6), "opts": "clean"})) {
                    return;
                }
            }
        })]
    }
    fn run_case(&self, _ctx: &Ctx, case: &Case) -> Verdict {
        // explicit files (hand-written regression cases) or a generated program
        let named: Vec<(String, String)> = if case["kind"] == "files-lsp" {
            let Some(m) = case["files"].as_object() else { return Verdict::Skip("malformed-case") };
            let mut v: Vec<(String, String)> = m.iter().map(|(k, v)| (k.clone(), v.as_str().unwrap_or("").to_string())).collect();
            v.sort_by_key(|f| f.0 != "root.td");
            if v.first().map(|f| f.0 != "root.td").unwrap_or(true) {
                return Verdict::Skip("malformed-case");
            }
            v
        } else {
            let Some(p) = program_of(case) else { return Verdict::Skip("malformed-case") };
            let mut rng = Rng::new(digest(case));
            let mut v: Vec<(String, String)> = p.files.iter().map(|(n, t)| (n.clone(), restyle(t, &mut rng, true))).collect();
            // a fifth of the workspaces: the last header includes the root back (an include cycle through the
            // document that is open and edited: its text is reached again while its own sources are collected)
            if rng.chance(1, 5) && v.len() >= 2 {
                if let Some(h) = v.iter_mut().skip(1).filter(|f| !f.0.contains('/')).last() {
                    let root = p.files[0].0.clone();
                    h.1.push_str(&format!("\ninclude \"{root}\"\n"));
                }
            }
            v
        };
        struct Names {
            files: Vec<(String, String)>,
        }
        let p = Names { files: named.clone() };
        let tw = TempWs::new();
        let files: Vec<(String, String)> = named.iter().map(|(n, t)| (tw.abs(n), t.clone())).collect();
        for (n, t) in &named {
            tw.write(n, t);
        }
        let ws = Workspace::new(&files, &files[0].0);
        let sess = Session { tw, files, ws };
        let a = sess.ws.analysis();
        let root_text = sess.files[0].1.clone();
        let root_rp = RefPos::new(&root_text);
        let root_uri = sess.tw.uri(&p.files[0].0);

        let mut c = Client::start(2);
        let sched = Sched::register(&c.thread_tag);
        let tag = c.thread_tag.clone();
        let done = |c: Client, v: Verdict| {
            Sched::unregister(&tag);
            c.shutdown();
            v
        };
        if !c.initialize() {
            return done(c, Verdict::Skip("initialize-failed"));
        }
        c.did_open(&root_uri, &root_text);
        if !sched.wait_idle(1, Duration::from_secs(60)) {
            return done(c, Verdict::Skip("not-idle"));
        }
        if !c.barrier(&root_uri) {
            return done(c, Verdict::Skip("no-response"));
        }
        let t = Duration::from_secs(30);
        let fail = |oracle: &str, detail: String| Verdict::Fail(Failure::new(oracle, oracle, format!("{detail}\nfiles: {:?}", sess.files.iter().map(|f| (&f.0, f.1.chars().take(200).collect::<String>())).collect::<Vec<_>>())));
        let mut nontrivial = false;
        let mut labels: Vec<&'static str> = Vec::new();

        // ---- diagnostics (a mismatch is believed only when it is still there after the server has been
        // observed a second time: pause, idle, second barrier)
        for attempt in 0..2 {
            let published = c.last_diagnostics();
            let mut bad = None;
            for (fid, ds) in a.diagnostics() {
                let text = sess.text_of(fid);
                let rp = RefPos::new(&text);
                let want = sorted(ds.iter().map(|d| json!({"range": lsp_range(&rp, r2(d.location.range).0, r2(d.location.range).1), "message": d.message})).collect());
                let uri = sess.uri_of(fid);
                let got = published.get(&uri).map(|x| x.1.clone());
                if got.as_ref() != Some(&want) {
                    bad = Some(format!("published diagnostics of {uri}: {got:?}, expected {want:?}"));
                    break;
                }
            }
            match bad {
                None => break,
                Some(detail) if attempt == 1 => return done(c, fail("C09.diagnostics", detail)),
                Some(_) => {
                    std::thread::sleep(Duration::from_millis(150));
                    if !sched.wait_idle(1, Duration::from_secs(60)) || !c.barrier(&root_uri) {
                        return done(c, Verdict::Skip("not-idle"));
                    }
                }
            }
        }
        // ---- definition / references at every identifier of the root
        let toks = id_tokens_by_parse(&root_text);
        for &(s, e) in toks.iter().take(250) {
            let at = (s + e) / 2;
            let params = json!({"textDocument": {"uri": root_uri}, "position": lsp_pos(&root_rp, at)});
            let want_def = a.goto_definition(pos(sess.ws.root, at)).map(|d| {
                let text = sess.text_of(d.file);
                let rp = RefPos::new(&text);
                let k = r2(d.range).0.min(root_text.len());
                let root_line = root_text.as_bytes()[..k].iter().filter(|b| **b == b'\n').count();
                if d.file != sess.ws.root && rp.to_pos(r2(d.range).0).0 != root_line {
                    nontrivial = true;
                }
                json!({"uri": sess.uri_of(d.file), "range": lsp_range(&rp, r2(d.range).0, r2(d.range).1)})
            });
            let Ok(r) = c.request("textDocument/definition", params.clone(), t) else { return done(c, Verdict::Skip("no-response")) };
            let got = if r["result"].is_null() { None } else { Some(r["result"].clone()) };
            if r.get("error").is_some() || got != want_def {
                return done(c, fail("C09.definition", format!("definition at root offset {at} ({:?}): server {}, expected {want_def:?}", &root_text[s..e], r)));
            }
            // independent of the ide-level result: the range sent to the client, read in the text of the
            // file it names, spells the identifier that was asked about
            if let Some(g) = &got {
                let path = g["uri"].as_str().unwrap_or("").trim_start_matches("file://").to_string();
                if let Some((_, ttext)) = sess.files.iter().find(|f| f.0 == path) {
                    let trp = RefPos::new(ttext);
                    let a0 = trp.from_pos(g["range"]["start"]["line"].as_u64().unwrap_or(0) as usize, g["range"]["start"]["character"].as_u64().unwrap_or(0) as usize);
                    let a1 = trp.from_pos(g["range"]["end"]["line"].as_u64().unwrap_or(0) as usize, g["range"]["end"]["character"].as_u64().unwrap_or(0) as usize);
                    let spelled = match (a0, a1) {
                        (Some(x), Some(y)) if x <= y && ttext.is_char_boundary(x) && ttext.is_char_boundary(y) => Some(&ttext[x..y]),
                        _ => None,
                    };
                    let asked = &root_text[s..e];
                    if asked != "NAME" && spelled != Some(asked) {
                        return done(c, fail("C09.definition-spelling", format!("definition of {asked:?} (root offset {at}): the range {} of {path} spells {spelled:?}", g["range"])));
                    }
                }
            }
            let want_refs = a.references(pos(sess.ws.root, at)).map(|v| {
                sorted(
                    v.iter()
                        .map(|x| {
                            let text = sess.text_of(x.file);
                            let rp = RefPos::new(&text);
                            json!({"uri": sess.uri_of(x.file), "range": lsp_range(&rp, r2(x.range).0, r2(x.range).1)})
                        })
                        .collect(),
                )
            });
            let mut rp2 = params.clone();
            rp2["context"] = json!({"includeDeclaration": true});
            let Ok(r) = c.request("textDocument/references", rp2, t) else { return done(c, Verdict::Skip("no-response")) };
            let got = r["result"].as_array().map(|v| sorted(v.clone()));
            if r.get("error").is_some() || got != want_refs {
                return done(c, fail("C09.references", format!("references at root offset {at} ({:?}): server {}, expected {want_refs:?}", &root_text[s..e], r)));
            }
        }
        // ---- per-document requests (root only: only open documents can be asked about)
        let td = json!({"textDocument": {"uri": root_uri}});
        let Ok(r) = c.request("textDocument/documentSymbol", td.clone(), t) else { return done(c, Verdict::Skip("no-response")) };
        let want = a.document_symbol(sess.ws.root).map(|v| v.iter().map(|s| symbol_json(s, &root_rp)).collect::<Vec<_>>());
        let got = r["result"].as_array().map(|v| v.iter().map(strip_symbol).collect::<Vec<_>>());
        if got != want {
            return done(c, fail("C09.document-symbol", format!("server {:?}, expected {:?}", got, want)));
        }
        let Ok(r) = c.request("textDocument/foldingRange", td.clone(), t) else { return done(c, Verdict::Skip("no-response")) };
        let want = a.folding_range(sess.ws.root).map(|v| sorted(v.iter().map(|f| json!([root_rp.to_pos(r2(f.range).0).0, root_rp.to_pos(r2(f.range).1).0])).collect()));
        let got = r["result"].as_array().map(|v| sorted(v.iter().map(|f| json!([f["startLine"], f["endLine"]])).collect()));
        if got != want {
            return done(c, fail("C09.folding-range", format!("server {:?}, expected {:?}", got, want)));
        }
        let Ok(r) = c.request("textDocument/documentLink", td.clone(), t) else { return done(c, Verdict::Skip("no-response")) };
        let want = a.document_link(sess.ws.root).map(|v| sorted(v.iter().map(|l| json!({"range": lsp_range(&root_rp, r2(l.range).0, r2(l.range).1), "target": sess.uri_of(l.target)})).collect()));
        let got = r["result"].as_array().map(|v| sorted(v.iter().map(|l| json!({"range": l["range"], "target": l["target"]})).collect()));
        if got != want {
            return done(c, fail("C09.document-link", format!("server {:?}, expected {:?}", got, want)));
        }
        let whole = json!({"textDocument": {"uri": root_uri}, "range": lsp_range(&root_rp, 0, root_text.len())});
        let Ok(r) = c.request("textDocument/inlayHint", whole, t) else { return done(c, Verdict::Skip("no-response")) };
        let want = a.inlay_hint(frange(sess.ws.root, 0, root_text.len())).map(|v| sorted(v.iter().map(|h| json!({"position": lsp_pos(&root_rp, u32::from(h.position) as usize), "label": h.label})).collect()));
        let got = r["result"].as_array().map(|v| sorted(v.iter().map(|h| json!({"position": h["position"], "label": h["label"]})).collect()));
        if got != want && !(root_text.is_empty()) {
            return done(c, fail("C09.inlay-hint", format!("server {:?}, expected {:?}", got, want)));
        }
        let _ = BTreeMap::<u8, u8>::new();
        // ---- second revision: the same bytes with a different line structure (line breaks after `;`
        // and `}` become spaces, so byte offsets stay and lines/columns move). What the client holds
        // afterwards must denote the spans of the new analysis in the new text.
        let new_root = relayout(&root_text);
        if new_root != root_text {
            labels.push("relayout revision compared");
            let mut files2 = sess.files.clone();
            files2[0].1 = new_root.clone();
            let ws2 = Workspace::new(&files2, &files2[0].0);
            let a2 = ws2.analysis();
            c.did_change(&root_uri, 2, &new_root);
            if !sched.wait_idle(2, Duration::from_secs(60)) {
                return done(c, Verdict::Skip("not-idle"));
            }
            if !c.barrier(&root_uri) {
                return done(c, Verdict::Skip("no-response"));
            }
            let mut published = c.last_diagnostics();
            let stale = |published: &BTreeMap<String, (Option<i64>, Vec<serde_json::Value>)>| {
                a2.diagnostics().iter().any(|(fid, ds)| {
                    let Some(path) = ws2.fs.path_of(*fid) else { return false };
                    let text = files2.iter().find(|f| f.0 == path).map(|f| f.1.clone()).unwrap_or_default();
                    let rp = RefPos::new(&text);
                    let want = sorted(ds.iter().map(|d| json!({"range": lsp_range(&rp, r2(d.location.range).0, r2(d.location.range).1), "message": d.message})).collect());
                    published.get(&format!("file://{path}")).map(|x| &x.1) != Some(&want)
                })
            };
            if stale(&published) {
                // believed only when still there after a second observation of the idle server
                std::thread::sleep(Duration::from_millis(150));
                if !sched.wait_idle(2, Duration::from_secs(60)) || !c.barrier(&root_uri) {
                    return done(c, Verdict::Skip("not-idle"));
                }
                published = c.last_diagnostics();
            }
            for (fid, ds) in a2.diagnostics() {
                let Some(path) = ws2.fs.path_of(fid) else { continue };
                let text = files2.iter().find(|f| f.0 == path).map(|f| f.1.clone()).unwrap_or_default();
                let rp = RefPos::new(&text);
                let want = sorted(ds.iter().map(|d| json!({"range": lsp_range(&rp, r2(d.location.range).0, r2(d.location.range).1), "message": d.message})).collect());
                let uri = format!("file://{path}");
                let got = published.get(&uri).map(|x| x.1.clone());
                if got.as_ref() != Some(&want) {
                    return done(c, fail("C09.diagnostics-after-relayout", format!("after a didChange that only moved line breaks, the client holds for {uri}: {got:?}; the spans of the new analysis in the new text are {want:?}\nnew root text: {new_root:?}")));
                }
                if !ds.is_empty() && fid == ws2.root {
                    nontrivial = true;
                }
            }
            let rp2 = RefPos::new(&new_root);
            let Ok(r) = c.request("textDocument/documentSymbol", td.clone(), t) else { return done(c, Verdict::Skip("no-response")) };
            let want = a2.document_symbol(ws2.root).map(|v| v.iter().map(|s| symbol_json(s, &rp2)).collect::<Vec<_>>());
            let got = r["result"].as_array().map(|v| v.iter().map(strip_symbol).collect::<Vec<_>>());
            if got != want {
                return done(c, fail("C09.document-symbol-after-relayout", format!("server {:?}, expected {:?}", got, want)));
            }
        }
        let text_at = |cur: &Vec<(String, String)>, path: &str| cur.iter().find(|f| f.0 == path).map(|f| f.1.clone()).unwrap_or_default();
        let diag_mismatch = |c: &Client, w: &Workspace, cur: &Vec<(String, String)>| -> Option<String> {
            let published = c.last_diagnostics();
            for (fid, ds) in w.analysis().diagnostics() {
                let path = w.fs.path_of(fid)?;
                let tx = text_at(cur, &path);
                let rp = RefPos::new(&tx);
                let want = sorted(ds.iter().map(|d| json!({"range": lsp_range(&rp, r2(d.location.range).0, r2(d.location.range).1), "message": d.message})).collect());
                let got = published.get(&format!("file://{path}")).map(|x| x.1.clone());
                if got.as_ref() != Some(&want) {
                    return Some(format!("diagnostics of {path}: {got:?}, expected {want:?}"));
                }
            }
            None
        };
        // ---- an included file that is not open changes on disk (two lines in front move every line of
        // it), then the root is sent again unchanged: what the server says about that file afterwards is
        // read by the client in the text that is on disk now
        let mut disk = sess.files.clone();
        let mut sent = 1u64;
        if new_root != root_text {
            disk[0].1 = new_root.clone();
            sent = 2;
        }
        if disk.len() >= 2 {
            let k = disk.len() - 1;
            let moved = format!("// moved\n\n{}", disk[k].1);
            sess.tw.write(&p.files[k].0, &moved);
            disk[k].1 = moved;
            let cur_root = disk[0].1.clone();
            c.did_change(&root_uri, 3, &cur_root);
            sent += 1;
            if !sched.wait_idle(sent, Duration::from_secs(60)) || !c.barrier(&root_uri) {
                return done(c, Verdict::Skip("not-idle"));
            }
            let ws_d = Workspace::new(&disk, &disk[0].0);
            let a_d = ws_d.analysis();
            if diag_mismatch(&c, &ws_d, &disk).is_some() {
                std::thread::sleep(Duration::from_millis(150));
                if !sched.wait_idle(sent, Duration::from_secs(60)) || !c.barrier(&root_uri) {
                    return done(c, Verdict::Skip("not-idle"));
                }
                if let Some(d) = diag_mismatch(&c, &ws_d, &disk) {
                    return done(c, fail("C09.diagnostics-after-disk-change", format!("after {} changed on disk and the root was sent again: {d}", disk[k].0)));
                }
            }
            let d_rp = RefPos::new(&cur_root);
            let mut into_moved = 0;
            for &(s0, e0) in id_tokens_by_parse(&cur_root).iter().take(150) {
                let at = (s0 + e0) / 2;
                let Some(d) = a_d.goto_definition(pos(ws_d.root, at)) else { continue };
                let dpath = ws_d.fs.path_of(d.file).unwrap_or_default();
                if dpath != disk[k].0 {
                    continue;
                }
                into_moved += 1;
                let rp = RefPos::new(&disk[k].1);
                let want = json!({"uri": format!("file://{dpath}"), "range": lsp_range(&rp, r2(d.range).0, r2(d.range).1)});
                let params = json!({"textDocument": {"uri": root_uri}, "position": lsp_pos(&d_rp, at)});
                let Ok(r) = c.request("textDocument/definition", params, t) else { return done(c, Verdict::Skip("no-response")) };
                if r.get("error").is_some() || r["result"] != want {
                    return done(c, fail("C09.definition-after-disk-change", format!("definition at root offset {at} ({:?}) after {dpath} changed on disk and the root was sent again: server {}, expected {want}", &cur_root[s0..e0], r)));
                }
            }
            if into_moved > 0 {
                labels.push("definitions into a file changed on disk");
            }
        }
        // ---- third part: an included document is opened as well. While it is the last touched document
        // it is the root of its own workspace; after the former root is touched again it is an open
        // *included* document, and requests about it are answered from the root's workspace.
        if sess.files.len() >= 2 {
            let mut cur = disk.clone();
            let (h_path, h_text) = cur[1].clone();
            let h_uri = format!("file://{h_path}");
            let h_rp = RefPos::new(&h_text);
            c.did_open(&h_uri, &h_text);
            sent += 1;
            if !sched.wait_idle(sent, Duration::from_secs(60)) || !c.barrier(&h_uri) {
                return done(c, Verdict::Skip("not-idle"));
            }
            let ws_h = Workspace::new(&cur, &h_path);
            if diag_mismatch(&c, &ws_h, &cur).is_some() {
                std::thread::sleep(Duration::from_millis(150));
                if !sched.wait_idle(sent, Duration::from_secs(60)) || !c.barrier(&h_uri) {
                    return done(c, Verdict::Skip("not-idle"));
                }
                if let Some(d) = diag_mismatch(&c, &ws_h, &cur) {
                    return done(c, fail("C09.diagnostics-included-opened", format!("after opening the included document {h_path}: {d}")));
                }
            }
            let td_h = json!({"textDocument": {"uri": h_uri}});
            let Ok(r) = c.request("textDocument/documentSymbol", td_h.clone(), t) else { return done(c, Verdict::Skip("no-response")) };
            let want = ws_h.analysis().document_symbol(ws_h.root).map(|v| v.iter().map(|s| symbol_json(s, &h_rp)).collect::<Vec<_>>());
            let got = r["result"].as_array().map(|v| v.iter().map(strip_symbol).collect::<Vec<_>>());
            if got != want {
                return done(c, fail("C09.document-symbol-included-opened", format!("server {:?}, expected {:?}", got, want)));
            }
            // the header is edited while it is open (same bytes, moved line breaks): from now on this is
            // the text its positions refer to
            let h_text2 = relayout(&h_text);
            let (h_text, h_rp) = if h_text2 != h_text {
                c.did_change(&h_uri, 5, &h_text2);
                sent += 1;
                if !sched.wait_idle(sent, Duration::from_secs(60)) || !c.barrier(&h_uri) {
                    return done(c, Verdict::Skip("not-idle"));
                }
                cur[1].1 = h_text2.clone();
                labels.push("open included document edited");
                (h_text2.clone(), RefPos::new(&h_text2))
            } else {
                (h_text.clone(), RefPos::new(&h_text))
            };
            // the former root is touched again (same text): the header is now an open included document
            let cur_root = cur[0].1.clone();
            c.did_change(&root_uri, 7, &cur_root);
            sent += 1;
            if !sched.wait_idle(sent, Duration::from_secs(60)) || !c.barrier(&root_uri) {
                return done(c, Verdict::Skip("not-idle"));
            }
            let ws_r = Workspace::new(&cur, &cur[0].0);
            let a_r = ws_r.analysis();
            if let Some(hid) = ws_r.fs.id_of(&h_path).filter(|id| ws_r.workspace_files(&a_r).contains(id)) {
                labels.push("open included document queried");
                let uri_of = |fid: FileId| format!("file://{}", ws_r.fs.path_of(fid).unwrap_or_default());
                for &(s0, e0) in id_tokens_by_parse(&h_text).iter().take(80) {
                    let at = (s0 + e0) / 2;
                    let params = json!({"textDocument": {"uri": h_uri}, "position": lsp_pos(&h_rp, at)});
                    let want_def = a_r.goto_definition(pos(hid, at)).map(|d| {
                        let tx = text_at(&cur, &ws_r.fs.path_of(d.file).unwrap_or_default());
                        let rp = RefPos::new(&tx);
                        if d.file != hid {
                            nontrivial = true;
                        }
                        json!({"uri": uri_of(d.file), "range": lsp_range(&rp, r2(d.range).0, r2(d.range).1)})
                    });
                    let Ok(r) = c.request("textDocument/definition", params.clone(), t) else { return done(c, Verdict::Skip("no-response")) };
                    let got = if r["result"].is_null() { None } else { Some(r["result"].clone()) };
                    if r.get("error").is_some() || got != want_def {
                        return done(c, fail("C09.definition-in-included", format!("definition at offset {at} ({:?}) of the open included document {h_path}: server {}, expected {want_def:?}", &h_text[s0..e0], r)));
                    }
                    let want_refs = a_r.references(pos(hid, at)).map(|v| {
                        sorted(
                            v.iter()
                                .map(|x| {
                                    let tx = text_at(&cur, &ws_r.fs.path_of(x.file).unwrap_or_default());
                                    let rp = RefPos::new(&tx);
                                    json!({"uri": uri_of(x.file), "range": lsp_range(&rp, r2(x.range).0, r2(x.range).1)})
                                })
                                .collect(),
                        )
                    });
                    let mut rp2 = params.clone();
                    rp2["context"] = json!({"includeDeclaration": true});
                    let Ok(r) = c.request("textDocument/references", rp2, t) else { return done(c, Verdict::Skip("no-response")) };
                    let got = r["result"].as_array().map(|v| sorted(v.clone()));
                    if r.get("error").is_some() || got != want_refs {
                        return done(c, fail("C09.references-in-included", format!("references at offset {at} ({:?}) of the open included document {h_path}: server {}, expected {want_refs:?}", &h_text[s0..e0], r)));
                    }
                }
                let Ok(r) = c.request("textDocument/documentSymbol", td_h.clone(), t) else { return done(c, Verdict::Skip("no-response")) };
                let want = a_r.document_symbol(hid).map(|v| v.iter().map(|s| symbol_json(s, &h_rp)).collect::<Vec<_>>());
                let got = r["result"].as_array().map(|v| v.iter().map(strip_symbol).collect::<Vec<_>>());
                if got != want {
                    return done(c, fail("C09.document-symbol-in-included", format!("server {:?}, expected {:?}", got, want)));
                }
                let whole = json!({"textDocument": {"uri": h_uri}, "range": lsp_range(&h_rp, 0, h_text.len())});
                let Ok(r) = c.request("textDocument/inlayHint", whole, t) else { return done(c, Verdict::Skip("no-response")) };
                let want = a_r.inlay_hint(frange(hid, 0, h_text.len())).map(|v| sorted(v.iter().map(|h| json!({"position": lsp_pos(&h_rp, u32::from(h.position) as usize), "label": h.label})).collect()));
                let got = r["result"].as_array().map(|v| sorted(v.iter().map(|h| json!({"position": h["position"], "label": h["label"]})).collect()));
                if got != want && !h_text.is_empty() {
                    return done(c, fail("C09.inlay-hint-in-included", format!("server {:?}, expected {:?}", got, want)));
                }
            }
        }
        done(c, Verdict::Pass { nontrivial, labels })
    }
    fn shrink_keep(&self) -> &'static [&'static str] {
        &["kind", "seed", "opts"]
    }
}
