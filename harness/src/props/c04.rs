//! C04 — grammar conformance: documented syntax is accepted (and reachable through the typed
//! accessors), other input is flagged.
use std::sync::OnceLock;

use rowan::ast::AstNode;
use rowan::NodeOrToken;
use serde_json::json;
use syntax::ast;
use syntax::syntax_kind::SyntaxKind;
use syntax::SyntaxNode;

use crate::fw::*;
use crate::gen::gram::{self, GramOpts, Trivia, T};
use crate::gen::{corpus, mutate};
use crate::refm::earley::Grammar;

pub struct C04;

// ---------------------------------------------------------------------------------------
// grammars over token classes

const COMMON: &str = r#"
SourceFile = Statement* ;
Statement = Include | Assert | Class | Def | Defm | Defset | Defvar | Dump | Foreach | If | Let | MultiClass ;
Class = 'class' 'ID' TemplateArgList? RecordBody ;
Def = 'def' NameValue? RecordBody ;
Let = 'let' LetList 'in' Block ;
Block = '{' Statement* '}' | Statement ;
LetList = LetItem (',' LetItem)* ;
LetItem = 'ID' ('<' RangeList '>')? '=' Value ;
MultiClass = 'multiclass' 'ID' TemplateArgList? ParentClassList '{' McStatement+ '}' ;
McStatement = Assert | Def | Defm | Defvar | Dump | Foreach | Let | If ;
Defm = 'defm' NameValue? ParentClassList ';' ;
Defset = 'defset' Type 'ID' '=' '{' Statement* '}' ;
Defvar = 'defvar' 'ID' '=' Value ';' ;
Dump = 'dump' Value ';' ;
Foreach = 'foreach' 'ID' '=' ForeachInit 'in' Block ;
If = 'if' Value 'then' Block ('else' Block)? ;
Assert = 'assert' Value ',' Value ';' ;
TemplateArgDecl = Type 'ID' ('=' Value)? ;
RecordBody = ParentClassList Body ;
ClassRef = 'ID' ('<' ArgValueList '>')? ;
NamedArg = Value '=' Value ;
Body = ';' | '{' BodyItem* '}' ;
BodyItem = FieldDef | FieldLet | Defvar | Assert | Dump ;
FieldDef = 'field'? FieldType 'ID' ('=' Value)? ';' ;
FieldLet = 'let' 'ID' ('{' RangeList '}')? '=' Value ';' ;
Int = 'INT' | 'BINT' ;
Value = InnerValue ('#' InnerValue)* ;
InnerValue = SimpleValue Suffix* ;
Suffix = '{' RangeList '}' | '[' SliceElements ']' | '.' 'ID' ;
SimpleValue = Int | Str | 'CODE' | 'true' | 'false' | '?' | Bits | List | Dag | 'ID' | ClassValue | BangOp | CondOp ;
SimpleValueNI = Str | 'CODE' | 'true' | 'false' | '?' | List | Dag | 'ID' | ClassValue | BangOp | CondOp | 'BINT' ;
ValueNI = SimpleValueNI Suffix* ('#' InnerValue)* ;
ClassValue = 'ID' '<' ArgValueList '>' ;
CondClause = Value ':' Value ;
NameValue = NameFirst ('#' NameInner)* ;
NameFirst = SimpleValueNoBits NameSuffix* ;
NameInner = SimpleValue NameSuffix* ;
SimpleValueNoBits = Int | Str | 'CODE' | 'true' | 'false' | '?' | List | Dag | 'ID' | ClassValue | BangOp | CondOp ;
NameSuffix = '[' SliceElements ']' | '.' 'ID' ;
DagArgList = DagArg (',' DagArg)* ;
"#;

const G_MIN: &str = r#"
Include = 'include' 'STR' ;
ForeachInit = '{' RangeList '}' | RangePiece | ValueNI ;
TemplateArgList = '<' TemplateArgDecl (',' TemplateArgDecl)* '>' ;
ParentClassList = (':' ClassRef (',' ClassRef)*)? ;
ArgValueList = (PosArgs | NamedArgs | PosArgs ',' NamedArgs)? ;
PosArgs = Value (',' Value)* ;
NamedArgs = NamedArg (',' NamedArg)* ;
FieldType = Type | 'code' ;
Type = 'bit' | 'int' | 'string' | 'dag' | 'bits' '<' Int '>' | 'list' '<' Type '>' | 'ID' ;
RangeList = RangePiece (',' RangePiece)* ;
RangePiece = Int | Int '...' Int | Int '-' Int | Int 'INT' ;
SliceElements = SliceElement (',' SliceElement)* ','? ;
SliceElement = Value | Value '...' Value | Value '-' Value | Value Int ;
Str = 'STR' ;
Bits = '{' ValueList '}' ;
ValueList = Value (',' Value)* ;
List = '[' ValueList ']' ('<' Type '>')? ;
Dag = '(' DagOpValue DagArgListNB? ')' | '(' DagOpValue ':' 'VAR' DagArgList? ')' ;
DagArgListNB = DagArgNB (',' DagArg)* ;
DagArgNB = ValueNB (':' 'VAR')? | 'VAR' ;
ValueNB = SimpleValueNB Suffix* ('#' InnerValue)* ;
SimpleValueNB = Int | Str | 'CODE' | 'true' | 'false' | '?' | Dag | 'ID' | ClassValue | BangOp | CondOp ;
DagOpValue = DagOpSimple Suffix* ('#' InnerValue)* ;
DagOpSimple = 'ID' | ClassValue | '?' | 'CASTOP' ('<' Type '>')? '(' ValueList ')' | 'GETDAGOP' ('<' Type '>')? '(' ValueList ')' ;
DagArg = Value (':' 'VAR')? | 'VAR' ;
BangOp = BangTok ('<' Type '>')? '(' ValueList ')' ;
BangTok = 'BANG' | 'CASTOP' | 'GETDAGOP' ;
CondOp = 'COND' '(' CondClause (',' CondClause)* ')' ;
"#;

const G_MAX: &str = r#"
Include = 'include' 'STR'+ ;
ForeachInit = '{' RangeList '}' | RangePiece | Value ;
TemplateArgList = '<' TemplateArgDecl (',' TemplateArgDecl)* ','? '>' ;
ParentClassList = (':' ClassRef (',' ClassRef)*)? ;
ArgValueList = (ArgAny (',' ArgAny)* ','?)? ;
ArgAny = Value | NamedArg ;
FieldType = Type ;
Type = 'bit' | 'int' | 'string' | 'dag' | 'code' | 'bits' '<' Value '>' | 'list' '<' Type '>' | 'ID' ;
RangeList = RangePiece (',' RangePiece)* ','? ;
RangePiece = Int | Int '...' Int | Int '-' Int | Int Int ;
SliceElements = SliceElement (',' SliceElement)* ','? ;
SliceElement = Value | Value '...' Value | Value '-' Value | Value Value ;
Str = 'STR'+ ;
Bits = '{' ValueListOpt '}' ;
ValueList = ValueListOpt ;
ValueListOpt = (Value (',' Value)* ','?)? ;
List = '[' ValueListOpt ']' ('<' Type '>')? ;
Dag = '(' (DagArg (','? DagArgList)? ','?)? ')' ;
DagArg = Value (':' 'VAR')? | 'VAR' ;
BangOp = BangTok ('<' Type '>')? '(' ValueListOpt ')' ;
BangTok = 'BANG' | 'CASTOP' | 'GETDAGOP' ;
CondOp = 'COND' '(' CondClause (',' CondClause)* ','? ')' ;
"#;

fn g_min() -> &'static Grammar {
    static G: OnceLock<Grammar> = OnceLock::new();
    G.get_or_init(|| Grammar::parse(&format!("{COMMON}{G_MIN}"), "SourceFile"))
}
fn g_max() -> &'static Grammar {
    static G: OnceLock<Grammar> = OnceLock::new();
    G.get_or_init(|| Grammar::parse(&format!("{COMMON}{G_MAX}"), "SourceFile"))
}

/// token class of a lexeme (lexemes come from GRAM or from the mutation alphabet below)
pub fn term_of(lex: &str) -> &'static str {
    const KW: [&str; 25] = [
        "assert", "bit", "bits", "class", "code", "dag", "def", "defm", "defset", "defvar", "dump", "else", "field", "foreach", "if", "in",
        "include", "int", "let", "list", "multiclass", "string", "then", "true", "false",
    ];
    const P: [&str; 18] = ["-", "+", "[", "]", "{", "}", "(", ")", "<", ">", ":", ";", ",", ".", "=", "?", "#", "..."];
    if let Some(k) = KW.iter().find(|k| **k == lex) {
        return k;
    }
    if let Some(k) = P.iter().find(|k| **k == lex) {
        return k;
    }
    let c = lex.chars().next().unwrap_or(' ');
    match c {
        '"' => "STR",
        '$' => "VAR",
        '[' => "CODE",
        '!' => match lex {
            "!cond" => "COND",
            "!cast" => "CASTOP",
            "!getdagop" => "GETDAGOP",
            _ => "BANG",
        },
        // numbers as the server's own lexer reads them (a digit-leading word such as `4x` is an identifier)
        _ if c.is_ascii_digit() || ((c == '-' || c == '+') && lex.len() > 1) => match super::c14::impl_lex(lex).0.first().map(|t| t.0) {
            Some(syntax::token_kind::TokenKind::BinaryIntVal) => "BINT",
            Some(syntax::token_kind::TokenKind::Id) => "ID",
            _ => "INT",
        },
        _ => "ID",
    }
}

fn mutation_alphabet() -> Vec<(&'static str, String)> {
    let mut v: Vec<(&'static str, String)> = Vec::new();
    for k in crate::gen::tok::KEYWORDS {
        v.push(("kw", k.to_string()));
    }
    for p in crate::gen::tok::PUNCT {
        v.push(("punct", p.to_string()));
    }
    for x in ["x", "A", "1", "-2", "0b1", "\"s\"", "[{c}]", "$v", "!add", "!cond", "!cast", "!getdagop"] {
        v.push(("val", x.to_string()));
    }
    v
}

// ---------------------------------------------------------------------------------------
// typed accessor walk

fn toks_of(n: &SyntaxNode) -> Vec<String> {
    n.descendants_with_tokens()
        .filter_map(|e| match e {
            NodeOrToken::Token(t) if !t.kind().is_trivia() && !t.text().is_empty() => Some(t.text().to_string()),
            _ => None,
        })
        .collect()
}

fn opt<N: AstNode<Language = syntax::Language>>(x: Option<N>) -> Vec<SyntaxNode> {
    x.map(|n| n.syntax().clone()).into_iter().collect()
}
fn many<N: AstNode<Language = syntax::Language>>(x: impl Iterator<Item = N>) -> Vec<SyntaxNode> {
    x.map(|n| n.syntax().clone()).collect()
}

/// what the typed accessors of `n` return
fn actual_accessors(n: &SyntaxNode) -> Vec<(&'static str, Vec<SyntaxNode>)> {
    macro_rules! cast {
        ($t:ident) => {
            match ast::$t::cast(n.clone()) {
                Some(x) => x,
                None => return vec![],
            }
        };
    }
    match n.kind() {
        SyntaxKind::SourceFile => { let x = cast!(SourceFile); vec![("statement_list", opt(x.statement_list()))] }
        SyntaxKind::StatementList => { let x = cast!(StatementList); vec![("statements", many(x.statements()))] }
        SyntaxKind::Include => { let x = cast!(Include); vec![("path", opt(x.path()))] }
        SyntaxKind::Class => { let x = cast!(Class); vec![("name", opt(x.name())), ("template_arg_list", opt(x.template_arg_list())), ("record_body", opt(x.record_body()))] }
        SyntaxKind::Def => { let x = cast!(Def); vec![("name", opt(x.name())), ("record_body", opt(x.record_body()))] }
        SyntaxKind::Let => { let x = cast!(Let); vec![("let_list", opt(x.let_list())), ("statement_list", opt(x.statement_list()))] }
        SyntaxKind::LetList => { let x = cast!(LetList); vec![("items", many(x.items()))] }
        SyntaxKind::LetItem => { let x = cast!(LetItem); vec![("name", opt(x.name())), ("range_list", opt(x.range_list())), ("value", opt(x.value()))] }
        SyntaxKind::MultiClass => { let x = cast!(MultiClass); vec![("name", opt(x.name())), ("template_arg_list", opt(x.template_arg_list())), ("parent_class_list", opt(x.parent_class_list())), ("statement_list", opt(x.statement_list()))] }
        SyntaxKind::Defm => { let x = cast!(Defm); vec![("name", opt(x.name())), ("parent_class_list", opt(x.parent_class_list()))] }
        SyntaxKind::Defset => { let x = cast!(Defset); vec![("type", opt(x.r#type())), ("name", opt(x.name())), ("statement_list", opt(x.statement_list()))] }
        SyntaxKind::Defvar => { let x = cast!(Defvar); vec![("name", opt(x.name())), ("value", opt(x.value()))] }
        SyntaxKind::Dump => { let x = cast!(Dump); vec![("value", opt(x.value()))] }
        SyntaxKind::Foreach => { let x = cast!(Foreach); vec![("iterator", opt(x.iterator())), ("body", opt(x.body()))] }
        SyntaxKind::ForeachIterator => { let x = cast!(ForeachIterator); vec![("name", opt(x.name())), ("init", opt(x.init()))] }
        SyntaxKind::If => { let x = cast!(If); vec![("condition", opt(x.condition())), ("then_body", opt(x.then_body())), ("else_body", opt(x.else_body()))] }
        SyntaxKind::Assert => { let x = cast!(Assert); vec![("condition", opt(x.condition())), ("message", opt(x.message()))] }
        SyntaxKind::TemplateArgList => { let x = cast!(TemplateArgList); vec![("args", many(x.args()))] }
        SyntaxKind::TemplateArgDecl => { let x = cast!(TemplateArgDecl); vec![("type", opt(x.r#type())), ("name", opt(x.name())), ("value", opt(x.value()))] }
        SyntaxKind::RecordBody => { let x = cast!(RecordBody); vec![("parent_class_list", opt(x.parent_class_list())), ("body", opt(x.body()))] }
        SyntaxKind::ParentClassList => { let x = cast!(ParentClassList); vec![("classes", many(x.classes()))] }
        SyntaxKind::ClassRef => { let x = cast!(ClassRef); vec![("name", opt(x.name())), ("arg_value_list", opt(x.arg_value_list()))] }
        SyntaxKind::ArgValueList => { let x = cast!(ArgValueList); vec![("arg_values", many(x.arg_values()))] }
        SyntaxKind::PositionalArgValue => { let x = cast!(PositionalArgValue); vec![("value", opt(x.value()))] }
        SyntaxKind::NamedArgValue => { let x = cast!(NamedArgValue); vec![("name", opt(x.name())), ("value", opt(x.value()))] }
        SyntaxKind::Body => { let x = cast!(Body); vec![("items", many(x.items()))] }
        SyntaxKind::FieldDef => { let x = cast!(FieldDef); vec![("type", opt(x.r#type())), ("name", opt(x.name())), ("value", opt(x.value()))] }
        SyntaxKind::FieldLet => { let x = cast!(FieldLet); vec![("name", opt(x.name())), ("range_list", opt(x.range_list())), ("value", opt(x.value()))] }
        SyntaxKind::BitsType => { let x = cast!(BitsType); vec![("length", opt(x.length()))] }
        SyntaxKind::ListType => { let x = cast!(ListType); vec![("inner_type", opt(x.inner_type()))] }
        SyntaxKind::ClassId => { let x = cast!(ClassId); vec![("name", opt(x.name()))] }
        SyntaxKind::Value => { let x = cast!(Value); vec![("inner_values", many(x.inner_values()))] }
        SyntaxKind::InnerValue => { let x = cast!(InnerValue); vec![("simple_value", opt(x.simple_value())), ("suffixes", many(x.suffixes()))] }
        SyntaxKind::RangeSuffix => { let x = cast!(RangeSuffix); vec![("range_list", opt(x.range_list()))] }
        SyntaxKind::RangeList => { let x = cast!(RangeList); vec![("pieces", many(x.pieces()))] }
        SyntaxKind::RangePiece => { let x = cast!(RangePiece); vec![("start", opt(x.start())), ("end", opt(x.end()))] }
        SyntaxKind::SliceSuffix => { let x = cast!(SliceSuffix); vec![("element_list", opt(x.element_list()))] }
        SyntaxKind::SliceElements => { let x = cast!(SliceElements); vec![("elements", many(x.elements()))] }
        SyntaxKind::SliceElement => { let x = cast!(SliceElement); vec![("start", opt(x.start())), ("end", opt(x.end()))] }
        SyntaxKind::FieldSuffix => { let x = cast!(FieldSuffix); vec![("name", opt(x.name()))] }
        SyntaxKind::Bits => { let x = cast!(Bits); vec![("value_list", opt(x.value_list()))] }
        SyntaxKind::List => { let x = cast!(List); vec![("value_list", opt(x.value_list())), ("type", opt(x.r#type()))] }
        SyntaxKind::ValueList => { let x = cast!(ValueList); vec![("values", many(x.values()))] }
        SyntaxKind::Dag => { let x = cast!(Dag); vec![("operator", opt(x.operator())), ("arg_list", opt(x.arg_list()))] }
        SyntaxKind::DagArgList => { let x = cast!(DagArgList); vec![("args", many(x.args()))] }
        SyntaxKind::DagArg => { let x = cast!(DagArg); vec![("value", opt(x.value())), ("var_name", opt(x.var_name()))] }
        SyntaxKind::ClassValue => { let x = cast!(ClassValue); vec![("name", opt(x.name())), ("arg_value_list", opt(x.arg_value_list()))] }
        SyntaxKind::BangOperator => { let x = cast!(BangOperator); vec![("type", opt(x.r#type())), ("values", many(x.values()))] }
        SyntaxKind::CondOperator => { let x = cast!(CondOperator); vec![("clauses", many(x.clauses()))] }
        SyntaxKind::CondClause => { let x = cast!(CondClause); vec![("condition", opt(x.condition())), ("value", opt(x.value()))] }
        _ => vec![],
    }
}

const TYPES: [&str; 8] = ["BitType", "IntType", "StringType", "DagType", "BitsType", "ListType", "ClassId", "CodeType"];
const SIMPLE: [&str; 12] = ["Integer", "String", "Code", "Boolean", "Uninitialized", "Bits", "List", "Dag", "Identifier", "ClassValue", "BangOperator", "CondOperator"];
const SUFFIX: [&str; 3] = ["RangeSuffix", "SliceSuffix", "FieldSuffix"];
const BODYITEMS: [&str; 5] = ["FieldDef", "FieldLet", "Defvar", "Assert", "Dump"];

fn kids<'a>(t: &'a T, kinds: &[&str]) -> Vec<&'a T> {
    t.nodes().into_iter().filter(|c| kinds.contains(&c.kind())).collect()
}
fn first<'a>(t: &'a T, kinds: &[&str]) -> Vec<&'a T> {
    kids(t, kinds).into_iter().take(1).collect()
}
fn nth<'a>(t: &'a T, kinds: &[&str], n: usize) -> Vec<&'a T> {
    kids(t, kinds).into_iter().skip(n).take(1).collect()
}

/// what the documented grammar says the accessors of this node denote
fn expected_accessors(t: &T) -> Vec<(&'static str, Vec<&T>)> {
    let st = &gram::STATEMENT_KINDS[..];
    match t.kind() {
        "SourceFile" => vec![("statement_list", first(t, &["StatementList"]))],
        "StatementList" => vec![("statements", kids(t, st))],
        "Include" => vec![("path", first(t, &["String"]))],
        "Class" => vec![("name", first(t, &["Identifier"])), ("template_arg_list", first(t, &["TemplateArgList"])), ("record_body", first(t, &["RecordBody"]))],
        "Def" => vec![("name", first(t, &["Value"])), ("record_body", first(t, &["RecordBody"]))],
        "Let" => vec![("let_list", first(t, &["LetList"])), ("statement_list", first(t, &["StatementList"]))],
        "LetList" => vec![("items", kids(t, &["LetItem"]))],
        "LetItem" => vec![("name", first(t, &["Identifier"])), ("range_list", first(t, &["RangeList"])), ("value", first(t, &["Value"]))],
        "MultiClass" => vec![("name", first(t, &["Identifier"])), ("template_arg_list", first(t, &["TemplateArgList"])), ("parent_class_list", first(t, &["ParentClassList"])), ("statement_list", first(t, &["StatementList"]))],
        "Defm" => vec![("name", first(t, &["Value"])), ("parent_class_list", first(t, &["ParentClassList"]))],
        "Defset" => vec![("type", first(t, &TYPES)), ("name", first(t, &["Identifier"])), ("statement_list", first(t, &["StatementList"]))],
        "Defvar" => vec![("name", first(t, &["Identifier"])), ("value", first(t, &["Value"]))],
        "Dump" => vec![("value", first(t, &["Value"]))],
        "Foreach" => vec![("iterator", first(t, &["ForeachIterator"])), ("body", first(t, &["StatementList"]))],
        "ForeachIterator" => vec![("name", first(t, &["Identifier"])), ("init", first(t, &["RangeList", "RangePiece", "Value"]))],
        "If" => vec![("condition", first(t, &["Value"])), ("then_body", nth(t, &["StatementList"], 0)), ("else_body", nth(t, &["StatementList"], 1))],
        "Assert" => vec![("condition", nth(t, &["Value"], 0)), ("message", nth(t, &["Value"], 1))],
        "TemplateArgList" => vec![("args", kids(t, &["TemplateArgDecl"]))],
        "TemplateArgDecl" => vec![("type", first(t, &TYPES)), ("name", first(t, &["Identifier"])), ("value", first(t, &["Value"]))],
        "RecordBody" => vec![("parent_class_list", first(t, &["ParentClassList"])), ("body", first(t, &["Body"]))],
        "ParentClassList" => vec![("classes", kids(t, &["ClassRef"]))],
        "ClassRef" => vec![("name", first(t, &["Identifier"])), ("arg_value_list", first(t, &["ArgValueList"]))],
        "ArgValueList" => vec![("arg_values", kids(t, &["PositionalArgValue", "NamedArgValue"]))],
        "PositionalArgValue" => vec![("value", nth(t, &["Value"], 0))],
        "NamedArgValue" => vec![("name", nth(t, &["Value"], 0)), ("value", nth(t, &["Value"], 1))],
        "Body" => vec![("items", kids(t, &BODYITEMS))],
        "FieldDef" => vec![("type", first(t, &TYPES)), ("name", first(t, &["Identifier"])), ("value", first(t, &["Value"]))],
        "FieldLet" => vec![("name", first(t, &["Identifier"])), ("range_list", first(t, &["RangeList"])), ("value", first(t, &["Value"]))],
        "BitsType" => vec![("length", first(t, &["Integer"]))],
        "ListType" => vec![("inner_type", first(t, &TYPES))],
        "ClassId" => vec![("name", first(t, &["Identifier"]))],
        "Value" => vec![("inner_values", kids(t, &["InnerValue"]))],
        "InnerValue" => vec![("simple_value", first(t, &SIMPLE)), ("suffixes", kids(t, &SUFFIX))],
        "RangeSuffix" => vec![("range_list", first(t, &["RangeList"]))],
        "RangeList" => vec![("pieces", kids(t, &["RangePiece"]))],
        "RangePiece" => vec![("start", nth(t, &["Integer"], 0)), ("end", nth(t, &["Integer"], 1))],
        "SliceSuffix" => vec![("element_list", first(t, &["SliceElements"]))],
        "SliceElements" => vec![("elements", kids(t, &["SliceElement"]))],
        "SliceElement" => vec![("start", nth(t, &["Value"], 0)), ("end", nth(t, &["Value"], 1))],
        "FieldSuffix" => vec![("name", first(t, &["Identifier"]))],
        "Bits" => vec![("value_list", first(t, &["ValueList"]))],
        "List" => vec![("value_list", first(t, &["ValueList"])), ("type", first(t, &TYPES))],
        "ValueList" => vec![("values", kids(t, &["Value"]))],
        "Dag" => vec![("operator", first(t, &["DagArg"])), ("arg_list", first(t, &["DagArgList"]))],
        "DagArgList" => vec![("args", kids(t, &["DagArg"]))],
        "DagArg" => vec![("value", first(t, &["Value"])), ("var_name", first(t, &["VarName"]))],
        "ClassValue" => vec![("name", first(t, &["Identifier"])), ("arg_value_list", first(t, &["ArgValueList"]))],
        "BangOperator" => vec![("type", first(t, &TYPES)), ("values", kids(t, &["Value"]))],
        "CondOperator" => vec![("clauses", kids(t, &["CondClause"]))],
        "CondClause" => vec![("condition", nth(t, &["Value"], 0)), ("value", nth(t, &["Value"], 1))],
        _ => vec![],
    }
}

fn walk(t: &T, n: &SyntaxNode, path: &mut Vec<&'static str>) -> Result<usize, Failure> {
    let kind = format!("{:?}", n.kind());
    let at = |path: &Vec<&'static str>| path.join("/");
    if kind != t.kind() {
        return Err(Failure::plain("C04.tree-kind", format!("at {}: node kind {kind}, grammar says {}", at(path), t.kind())));
    }
    let want_toks = t.token_vec();
    let got_toks = toks_of(n);
    if want_toks != got_toks {
        return Err(Failure::plain("C04.constituent-text", format!("at {}: node {kind} spans {:?}, the constituent is {:?}", at(path), got_toks.join(" "), want_toks.join(" "))));
    }
    let mut checked = 1usize;
    // typed accessors
    let actual = actual_accessors(n);
    let expected = expected_accessors(t);
    for (name, want) in &expected {
        let Some((_, got)) = actual.iter().find(|(a, _)| a == name) else {
            return Err(Failure::new("C04.accessor", format!("C04.accessor:{kind}.{name}"), format!("at {}: no accessor {kind}::{name}", at(path))));
        };
        let same = got.len() == want.len() && got.iter().zip(want.iter()).all(|(g, w)| format!("{:?}", g.kind()) == w.kind() && toks_of(g) == w.token_vec());
        if !same {
            return Err(Failure::new(
                "C04.accessor",
                format!("C04.accessor:{kind}.{name}"),
                format!(
                    "at {}: {kind}::{name}() returns {:?}, the grammar's constituent is {:?} (node text {:?})",
                    at(path),
                    got.iter().map(|g| (format!("{:?}", g.kind()), toks_of(g).join(" "))).collect::<Vec<_>>(),
                    want.iter().map(|w| (w.kind(), w.token_vec().join(" "))).collect::<Vec<_>>(),
                    got_toks.join(" ")
                ),
            ));
        }
    }
    // children, in source order
    let want_children = t.nodes();
    let got_children: Vec<SyntaxNode> = n.children().collect();
    if want_children.len() != got_children.len() {
        return Err(Failure::plain(
            "C04.tree-children",
            format!("at {}: {kind} has child nodes {:?}, the derivation has {:?} (text {:?})", at(path), got_children.iter().map(|c| format!("{:?}", c.kind())).collect::<Vec<_>>(), want_children.iter().map(|c| c.kind()).collect::<Vec<_>>(), got_toks.join(" ")),
        ));
    }
    for (w, g) in want_children.iter().zip(&got_children) {
        path.push(w.kind());
        checked += walk(w, g, path)?;
        path.pop();
    }
    Ok(checked)
}

fn tree_from_seed(seed: u64, budget: i64) -> T {
    let mut rng = Rng::new(seed ^ 0xC04);
    gram::Gram::new(&mut rng, GramOpts { budget, ..Default::default() }).source_file()
}

fn errors_of(text: &str) -> Vec<String> {
    syntax::parse(text).errors().iter().map(|e| format!("{:?} {}", e.range, e.message)).collect()
}

impl Property for C04 {
    fn id(&self) -> &'static str {
        "C04"
    }
    fn rule(&self) -> String {
        "positive: GRAM sentences (derivation trees of syntax.md + rule comments, dag operators restricted to what TableGen accepts) rendered under three trivia policies must parse with zero errors and the parse must mirror the derivation: same node kinds in source order, every typed accessor of ast.rs returns exactly the constituent the grammar assigns to it (57 node types, 103 accessors); the 39 vendored LLVM files and the well-formed seed files parse with zero errors. negative: 1-2 token edits (delete/insert/duplicate/transpose/replace over keywords, punctuation and value tokens) of a sentence, rendered with single spaces and classified by an Earley recogniser: in G_min => zero errors; not in G_max (G_min + trailing separators/emptiness in bracketed lists, adjacent strings, operand-less operators, code as a type anywhere, unrestricted dag operators, Value for Integer in slices) => >=1 error; in between: not asserted. distinct = digest; non-trivial = positive: >=3 statement kinds or depth >=6; negative: classified outside G_max".into()
    }
    fn assumptions(&self) -> Vec<String> {
        vec!["the Earley grammars are my reading of syntax.md and the rule comments; a violation in the negative direction is examined by hand (legal TableGen => G_max is widened)".into()]
    }
    fn families(&self, ctx: &Ctx) -> Vec<Family> {
        vec![
            Family::new("gram-positive", ctx.tier.pick(200, 10000), |_c, rng, emit| {
                for _ in 0..50 {
                    let budget = [15, 40, 100, 250][rng.below(4)];
                    if !emit(json!({"kind": "gram", "seed": rng.next() >> 16, "budget": budget, "trivia": rng.below(3)})) {
                        return;
                    }
                }
            }),
            Family::new("corpus", 1, |_c, _r, emit| {
                for (name, _) in corpus::llvm().iter() {
                    if !emit(json!({"kind": "corpus", "file": name})) {
                        return;
                    }
                }
                for (name, _) in corpus::seeds().iter() {
                    if !name.contains("broken") {
                        emit(json!({"kind": "seedfile", "file": name}));
                    }
                }
            })
            .exhaustive(),
            Family::new("token-edits", ctx.tier.pick(300, 20000), |_c, rng, emit| {
                let alpha = mutation_alphabet();
                for _ in 0..50 {
                    let budget = [8, 20, 40][rng.below(3)];
                    let tree = gram::Gram::new(rng, GramOpts { budget, includes: true, ..Default::default() }).source_file();
                    let k = 1 + rng.below(2);
                    let toks = mutate::mutate_tokens(&tree.token_vec(), rng, k, &alpha);
                    if !emit(json!({"kind": "tokens", "tokens": toks})) {
                        return;
                    }
                }
            }),
        ]
    }
    fn run_case(&self, _ctx: &Ctx, case: &Case) -> Verdict {
        match case["kind"].as_str() {
            Some("gram") => {
                let (Some(seed), Some(budget)) = (case["seed"].as_u64(), case["budget"].as_u64()) else { return Verdict::Skip("malformed-case") };
                let tree = tree_from_seed(seed, budget as i64);
                let trivia = [Trivia::Single, Trivia::Mixed, Trivia::Rich][case["trivia"].as_u64().unwrap_or(0) as usize % 3];
                let mut rng = Rng::new(seed ^ 0x7717);
                let text = gram::render(&tree.token_vec(), trivia, &mut rng);
                let parse = syntax::parse(&text);
                if !parse.errors().is_empty() {
                    return Verdict::Fail(Failure::plain("C04.sentence-rejected", format!("grammar sentence has syntax errors {:?}: {text:?}", errors_of(&text))));
                }
                // self-check of the reference grammars: a generated sentence must be in G_max
                let tv = tree.token_vec();
                if tv.len() <= 120 {
                    let terms: Vec<&str> = tv.iter().map(|t| term_of(t)).collect();
                    if !g_max().accepts(&terms) {
                        return Verdict::Fail(Failure::new("harness", "harness:gram-sentence-not-in-G_max", format!("G_max rejects the generated sentence {:?}", tv.join(" "))));
                    }
                }
                let mut path = vec!["SourceFile"];
                match walk(&tree, &parse.syntax_node(), &mut path) {
                    Ok(_) => {
                        let mut kinds = std::collections::BTreeSet::new();
                        tree.statement_kinds(&mut kinds);
                        Verdict::pass(kinds.len() >= 3 || tree.depth() >= 6)
                    }
                    Err(mut f) => {
                        f.detail = format!("{}\ntext: {text:?}", f.detail);
                        Verdict::Fail(f)
                    }
                }
            }
            Some("corpus") | Some("seedfile") => {
                let name = case["file"].as_str().unwrap_or("");
                let src = if case["kind"] == "corpus" { corpus::llvm() } else { corpus::seeds() };
                let Some((_, text)) = src.iter().find(|(n, _)| n == name) else { return Verdict::Skip("no-such-file") };
                let errs = errors_of(text);
                if !errs.is_empty() {
                    return Verdict::Fail(Failure::new("C04.real-file-rejected", format!("C04.real-file-rejected:{name}"), format!("{name}: {:?}", errs.iter().take(5).collect::<Vec<_>>())));
                }
                Verdict::pass(true)
            }
            Some("tokens") => {
                let Some(toks) = case["tokens"].as_array() else { return Verdict::Skip("malformed-case") };
                let toks: Vec<String> = toks.iter().filter_map(|t| t.as_str().map(|s| s.to_string())).collect();
                // every element must be one lexical token (guards shrunk / hand-edited cases)
                for tk in &toks {
                    let (l, e) = super::c14::impl_lex(tk);
                    if l.len() != 1 || !e.is_empty() || l[0].2 != tk.len() {
                        return Verdict::Skip("element-is-not-one-token");
                    }
                }
                let terms: Vec<&str> = toks.iter().map(|t| term_of(t)).collect();
                let text = toks.join(" ");
                let nerr = syntax::parse(&text).errors().len();
                let in_min = g_min().accepts(&terms);
                let in_max = in_min || g_max().accepts(&terms);
                if in_min && nerr > 0 {
                    return Verdict::Fail(Failure::plain("C04.derivable-but-rejected", format!("derivable from the documented grammar, but {:?}: {text:?}", errors_of(&text))));
                }
                if !in_max && nerr == 0 {
                    return Verdict::Fail(Failure::plain("C04.not-derivable-but-accepted", format!("not derivable even from the generous grammar, yet no syntax error: {text:?}")));
                }
                Verdict::Pass { nontrivial: !in_max, labels: vec![if in_min { "in-G_min" } else if in_max { "between" } else { "outside-G_max" }] }
            }
            _ => Verdict::Skip("malformed-case"),
        }
    }
    fn shrink_keep(&self) -> &'static [&'static str] {
        &["kind", "seed", "file", "trivia"]
    }
}
