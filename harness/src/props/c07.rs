//! C07 — incremental consistency: results never depend on the edit history.
use serde_json::json;

use super::wsq;
use crate::fw::*;
use crate::ws::Workspace;

pub struct C07;

const NFILES: usize = 4;
pub const NVARIANTS: usize = 24;

/// Text variant `v` of file `i` (pure function).
pub fn variant_text(i: usize, v: usize) -> String {
    let others: Vec<usize> = (0..NFILES).filter(|j| *j != i).collect();
    // bits 0..2: include subset; remaining: flavour
    let subset = v % 8;
    let flavour = (v / 8) % 3;
    let incs: Vec<usize> = others.iter().enumerate().filter(|(k, _)| subset >> k & 1 == 1).map(|(_, j)| *j).collect();
    let cname = if flavour == 1 { format!("K{i}x") } else { format!("K{i}") };
    let mut s = String::new();
    let inc_lines: String = incs.iter().map(|j| format!("include \"f{j}.td\"\n")).collect();
    // flavour 2 moves the includes below the class (their node ranges then collide with other statements' old ranges)
    if flavour != 2 {
        s.push_str(&inc_lines);
    }
    s.push_str(&format!("// doc of {cname}\nclass {cname}<int a> {{ int x = a; }}\n"));
    if flavour == 2 {
        s.push_str(&inc_lines);
    }
    s.push_str(&format!("def d{i} : {cname}<{}>;\n", i + 1));
    for j in &incs {
        // uses of the other files' classes (resolve only when that file declares the plain name)
        s.push_str(&format!("def u{i}_{j} : K{j}<{}> {{ let x = !add(x, 1); }}\n", j + 1));
    }
    match v % 5 {
        3 => s.push_str("def broken : { \n"),               // syntax error
        4 => s.push_str(&format!("def t{i} : {cname}<\"s\">;\n")), // type error
        _ => {}
    }
    if v % 7 == 6 {
        s.push_str("include \"nowhere.td\"\n");
    }
    s
}

fn initial_files() -> Vec<(String, String)> {
    (0..NFILES).map(|i| (format!("f{i}.td"), variant_text(i, if i == 0 { 1 } else { 0 }))).collect()
}

impl Property for C07 {
    fn id(&self) -> &'static str {
        "C07"
    }
    fn rule(&self) -> String {
        format!("histories of 1..12 operations over a 4-file workspace: edit(file, one of {NVARIANTS} text variants: every include subset x {{clean, declaration renamed, includes moved below the class}} x {{syntax error, type error, include of a missing file}}) applied server-style (edited file becomes root) or API-style (root unchanged), root switches, and disk-only changes of a file (picked up when the sources are next collected); after EVERY step the long-lived AnalysisHost's full dump (diagnostics, per workspace file: symbols, folding, links, full-range hints, definition/references/hover at every identifier, completion at 9 offsets x 2 triggers; FileId -> path; hash-ordered lists sorted) must equal the dump of a fresh host given only the current texts; family server-histories replays such histories (didOpen/didChange/didClose and rewrites of files on disk with an unchanged modification time - also with an unchanged length -, and a file that some variants include in vain appearing on disk / being deleted / being opened as a never-saved document / closed, 1..7 events) through the real server and compares its last published diagnostics and the documentSymbol answer of every open document with a fresh analysis of disk overlaid by the open buffers. distinct = digest of history; non-trivial = >=2 edits, one changing an include set or the root, and the dump changed between two consecutive steps")
    }
    fn assumptions(&self) -> Vec<String> {
        vec!["every edit is followed by set_root_file (the only way the API (re)collects include maps); the in-memory FileSystem is updated together with set_file_content".into()]
    }
    fn families(&self, ctx: &Ctx) -> Vec<Family> {
        vec![
            Family::new("pairs-exhaustive", NFILES as u64, |file, _r, emit| {
                // every (op style, file, variant) followed by every (op style, file2, variant2 sample)
                for style in 0..2u64 {
                    for v in 0..NVARIANTS as u64 {
                        for f2 in 0..NFILES as u64 {
                            for style2 in 0..4u64 {
                                let v2 = (v * 7 + f2 * 3 + style2) % NVARIANTS as u64;
                                let h = json!([[style, file, v], [style2, f2, v2]]);
                                if !emit(json!({"kind": "hist", "ops": h})) {
                                    return;
                                }
                            }
                        }
                    }
                }
            }),
            Family::new("sem-histories", ctx.tier.pick(40, 1000), |_c, rng, emit| {
                for _ in 0..25 {
                    let n = 1 + rng.below(8);
                    let ops: Vec<_> = (0..n).map(|_| json!([rng.weighted(&[5, 3, 2, 2]), rng.below(3), rng.below(7)])).collect();
                    if !emit(json!({"kind": "sem-hist", "seed": rng.next() >> 16, "n": 2 + rng.below(6), "ops": ops})) {
                        return;
                    }
                }
            }),
            // the same histories through the real server: didOpen/didChange/didClose of documents whose
            // disk texts are the initial variants; what the server publishes and answers must equal a
            // fresh analysis of (disk overlaid by open buffers), rooted at the last touched document
            Family::new("server-histories", ctx.tier.pick(16, 400), |_c, rng, emit| {
                for _ in 0..12 {
                    let n = 1 + rng.below(7);
                    let ops: Vec<_> = (0..n).map(|_| json!([rng.weighted(&[6, 1, 2, 2, 2]), rng.below(NFILES), rng.below(2 * NVARIANTS)])).collect();
                    // the workspace directory: plain, one whose name the editor percent-escapes, one behind a symbolic link
                    if !emit(json!({"kind": "server-hist", "ops": ops, "ws": rng.weighted(&[3, 2, 1])})) {
                        return;
                    }
                }
            }),
            // a document is edited without being saved, closed (its edit is gone: the disk is the truth
            // again), and reached again through the includes of the root - in each kind of workspace directory
            Family::new("closed-documents", 3, |ws, _r, emit| {
                for f in 1..NFILES {
                    for v in [1usize, 3, 9, 12, 20] {
                        for ops in [json!([[0, f, v], [1, f, 0], [0, 0, 7]]), json!([[0, 0, 7], [0, f, v], [1, f, 0], [0, 0, 15]]), json!([[0, f, v], [0, 0, 7], [1, f, 0], [1, 0, 0], [0, 0, 7]])] {
                            if !emit(json!({"kind": "server-hist", "ops": ops, "ws": ws})) {
                                return;
                            }
                        }
                    }
                }
            })
            .exhaustive(),
            // a document is opened with the very text its file has (variant 0), another program rewrites the
            // file while the document stays open, and the document is reached again through the root's includes
            Family::new("unmodified-documents", 3, |ws, _r, emit| {
                for f in 1..NFILES {
                    for v in [1usize, 3, 9, 12, 20] {
                        for ops in [json!([[0, f, 0], [2, f, v], [0, 0, 7]]), json!([[0, 0, 7], [0, f, 0], [3, f, 0], [0, 0, 15]]), json!([[0, f, v], [0, f, 0], [2, f, v], [0, 0, 7], [2, f, 0], [0, 0, 15]])] {
                            if !emit(json!({"kind": "server-hist", "ops": ops, "ws": ws})) {
                                return;
                            }
                        }
                    }
                }
            })
            .exhaustive(),
            // a file that is included in vain comes into being on disk (written by a generator, a checkout) between
            // two analyses of the document that includes it, and goes away again: nobody tells the server
            Family::new("late-files", 3, |ws, _r, emit| {
                for f in 0..NFILES {
                    // (the variants that end with `include "nowhere.td"`: v % 7 == 6)
                    for v in [6usize, 13, 20] {
                        let w = (v + 7) % (2 * NVARIANTS);
                        for ops in [
                            json!([[0, f, v], [4, 0, 0], [0, f, v]]),
                            json!([[0, f, v], [4, 0, 0], [0, f, w], [4, 0, 0], [0, f, v]]),
                            json!([[0, f, v], [0, (f + 1) % NFILES, 1], [4, 0, 0], [0, f, v], [0, f, w]]),
                        ] {
                            if !emit(json!({"kind": "server-hist", "ops": ops, "ws": ws})) {
                                return;
                            }
                        }
                    }
                }
            })
            .exhaustive(),
            // a document is edited several times (its version number grows), closed, opened again (an editor starts
            // counting at 1 again) and edited: what was known of the earlier editing session must not matter
            Family::new("reopened-documents", 3, |ws, _r, emit| {
                for f in 0..NFILES {
                    for edits in 2..=4usize {
                        for v in [1usize, 9, 20] {
                            let mut ops: Vec<serde_json::Value> = (0..=edits).map(|k| json!([0, f, (v + 3 * k) % (2 * NVARIANTS)])).collect();
                            ops.push(json!([1, f, 0]));
                            ops.push(json!([0, f, (v + 1) % (2 * NVARIANTS)]));
                            ops.push(json!([0, f, (v + 5) % (2 * NVARIANTS)]));
                            ops.push(json!([0, 0, 7]));
                            ops.push(json!([0, f, (v + 2) % (2 * NVARIANTS)]));
                            if !emit(json!({"kind": "server-hist", "ops": ops, "ws": ws})) {
                                return;
                            }
                        }
                    }
                }
            })
            .exhaustive(),
            Family::new("random-histories", ctx.tier.pick(48, 1500), |_c, rng, emit| {
                for _ in 0..40 {
                    let n = 1 + rng.below(12);
                    let ops: Vec<_> = (0..n).map(|_| json!([rng.weighted(&[5, 3, 2, 2]), rng.below(NFILES), rng.below(NVARIANTS)])).collect();
                    if !emit(json!({"kind": "hist", "ops": ops})) {
                        return;
                    }
                }
            }),
        ]
    }
    fn run_case(&self, _ctx: &Ctx, case: &Case) -> Verdict {
        let Some(ops) = case["ops"].as_array() else { return Verdict::Skip("malformed-case") };
        if case["kind"] == "sem-hist" {
            return sem_history(case, ops);
        }
        if case["kind"] == "server-hist" {
            return server_history(case, ops);
        }
        let mut files = initial_files();
        let mut live = Workspace::new(&files, "f0.td");
        let mut root = "f0.td".to_string();
        let mut root_text = files[0].1.clone();
        let mut prev_dump: Option<serde_json::Value> = None;
        let mut changed = false;
        let mut structural = false;
        let mut edits = 0;
        for (step, op) in ops.iter().enumerate() {
            let (Some(kind), Some(f), Some(v)) = (op[0].as_u64(), op[1].as_u64(), op[2].as_u64()) else { return Verdict::Skip("malformed-case") };
            let f = f as usize % NFILES;
            let v = v as usize % NVARIANTS;
            let name = format!("f{f}.td");
            match kind % 4 {
                0 => {
                    let t = variant_text(f, v);
                    if files[f].1 != t {
                        edits += 1;
                        if v % 8 != 0 || root != name {
                            structural = true;
                        }
                    }
                    files[f].1 = t.clone();
                    live.edit_as_root(&name, &t);
                    root_text = t.clone();
                    root = name.clone();
                }
                1 => {
                    let t = variant_text(f, v);
                    if files[f].1 != t {
                        edits += 1;
                        structural = true;
                    }
                    files[f].1 = t.clone();
                    live.edit_keep_root(&name, &t);
                    if root == name {
                        root_text = t.clone();
                    }
                }
                2 => {
                    if root != name {
                        structural = true;
                    }
                    live.switch_root(&name);
                    root_text = files[f].1.clone();
                    root = name.clone();
                }
                _ => {
                    // the file changes on disk only; nothing to compare until the analysis is told to
                    // look again (a fresh analysis would read the new text, the long-lived one has
                    // not been asked to)
                    // (not for the current root: its text is held by the analysis, and an include cycle
                    // leading back to it would make "the final contents" ambiguous)
                    if name == root {
                        continue;
                    }
                    let t = variant_text(f, v);
                    if files[f].1 != t {
                        structural = true;
                    }
                    files[f].1 = t.clone();
                    live.fs_only_edit(&name, &t);
                    continue;
                }
            }
            let fresh = Workspace::new_with_root_text(&files, &root, &root_text);
            let d_live = wsq::dump(&live, &live.analysis());
            let d_fresh = wsq::dump(&fresh, &fresh.analysis());
            if d_live != d_fresh {
                let diff = wsq::first_diff(&d_live, &d_fresh, &mut String::new()).unwrap_or_default();
                let what = diff.split(':').next().unwrap_or("").rsplit('/').next().unwrap_or("").chars().filter(|c| c.is_alphabetic()).collect::<String>();
                return Verdict::Fail(Failure::new(
                    "C07.differs-from-fresh",
                    format!("C07.differs-from-fresh:{what}"),
                    format!("after step {step} (op {op}): long-lived vs fresh differ at {diff}"),
                ));
            }
            if let Some(p) = &prev_dump {
                if *p != d_live {
                    changed = true;
                }
            }
            prev_dump = Some(d_live);
        }
        Verdict::pass(edits >= 2 && structural && changed)
    }
    fn shrink_keep(&self) -> &'static [&'static str] {
        &["kind", "seed", "ws"]
    }
}

/// The same differential over the files of a generated (SEM) program: richer symbol tables than the
/// fixed variants. Variant v of file k: 0 original, 1 a prefix, 2 character noise, 3 the same-named
/// file of another generated program, 4 empty, 5 CRLF, 6 original plus a use of an undeclared class.
fn sem_history(case: &Case, ops: &[serde_json::Value]) -> Verdict {
    use crate::gen::{mutate, sem};
    let (Some(seed), Some(n)) = (case["seed"].as_u64(), case["n"].as_u64()) else { return Verdict::Skip("malformed-case") };
    let p = sem::program_from(seed, (n as usize).min(12), sem::Opts::Clean);
    let q = sem::program_from(seed.wrapping_add(1), (n as usize).min(12), sem::Opts::Clean);
    let nfiles = p.files.len();
    let variant = |k: usize, v: usize| -> String {
        let orig = &p.files[k].1;
        let mut rng = Rng::new(seed ^ ((k as u64) << 8) ^ v as u64);
        match v % 7 {
            0 => orig.clone(),
            1 => mutate::prefix_at(orig, &mut rng),
            2 => mutate::char_noise(orig, &mut rng, 3),
            3 => q.files.get(k).map(|f| f.1.clone()).unwrap_or_else(|| "class Other;\n".to_string()),
            4 => String::new(),
            5 => mutate::to_crlf(orig),
            _ => format!("{orig}\ndef extra_use : NoSuchClass;\n"),
        }
    };
    let mut files: Vec<(String, String)> = p.files.clone();
    let mut live = Workspace::new(&files, &files[0].0);
    let mut root = files[0].0.clone();
    let mut root_text = files[0].1.clone();
    let mut prev: Option<serde_json::Value> = None;
    let mut changed = false;
    let mut edits = 0;
    for (step, op) in ops.iter().enumerate() {
        let (Some(kind), Some(f), Some(v)) = (op[0].as_u64(), op[1].as_u64(), op[2].as_u64()) else { return Verdict::Skip("malformed-case") };
        let k = f as usize % nfiles;
        let name = files[k].0.clone();
        match kind % 4 {
            0 => {
                let t = variant(k, v as usize);
                edits += (files[k].1 != t) as usize;
                files[k].1 = t.clone();
                live.edit_as_root(&name, &t);
                root_text = t;
                root = name.clone();
            }
            1 => {
                let t = variant(k, v as usize);
                edits += (files[k].1 != t) as usize;
                files[k].1 = t.clone();
                live.edit_keep_root(&name, &t);
                if root == name {
                    root_text = t;
                }
            }
            2 => {
                live.switch_root(&name);
                root_text = files[k].1.clone();
                root = name.clone();
            }
            _ => {
                if name == root {
                    continue;
                }
                let t = variant(k, v as usize);
                files[k].1 = t.clone();
                live.fs_only_edit(&name, &t);
                continue;
            }
        }
        let fresh = Workspace::new_with_root_text(&files, &root, &root_text);
        let d_live = wsq::dump(&live, &live.analysis());
        let d_fresh = wsq::dump(&fresh, &fresh.analysis());
        if d_live != d_fresh {
            let diff = wsq::first_diff(&d_live, &d_fresh, &mut String::new()).unwrap_or_default();
            let what = diff.split(':').next().unwrap_or("").rsplit('/').next().unwrap_or("").chars().filter(|c| c.is_alphabetic()).collect::<String>();
            return Verdict::Fail(Failure::new("C07.differs-from-fresh", format!("C07.differs-from-fresh:{what}"), format!("generated program (seed {seed}, n {n}), after step {step} (op {op}): long-lived vs fresh differ at {diff}")));
        }
        if let Some(pv) = &prev {
            changed |= *pv != d_live;
        }
        prev = Some(d_live);
    }
    Verdict::pass(edits >= 2 && changed && nfiles >= 2)
}

fn server_history(case: &Case, ops: &[serde_json::Value]) -> Verdict {
    use super::session::{compare_with_fresh, LspSession};
    use std::collections::BTreeMap;
    let tw = match case["ws"].as_u64() {
        Some(1) => crate::lspc::TempWs::new_special(),
        Some(2) => crate::lspc::TempWs::new_symlinked(),
        _ => crate::lspc::TempWs::new(),
    };
    let Some(mut s) = LspSession::start_in(tw) else { return Verdict::Skip("initialize-failed") };
    let mut disk = initial_files();
    let mut model: BTreeMap<String, String> = BTreeMap::new();
    for (n, t) in &disk.clone() {
        s.tw.write(n, t);
        model.insert(n.clone(), t.clone());
    }
    let mut verdict = None;
    let mut touches = 0;
    let mut structural = false;
    let mut nowhere_on_disk: Option<String> = None;
    for (step, op) in ops.iter().enumerate() {
        let (Some(kind), Some(f), Some(v)) = (op[0].as_u64(), op[1].as_u64(), op[2].as_u64()) else {
            verdict = Some(Verdict::Skip("malformed-case"));
            break;
        };
        let f = f as usize % NFILES;
        let name = format!("f{f}.td");
        if kind % 5 == 4 {
            // the file that some variants include in vain, nowhere.td, comes and goes: it appears on disk /
            // is deleted (v even), or is opened as a document that was never saved / closed again (v odd).
            // An include that could not be resolved when its file was last analysed resolves now, and back.
            let nw = "nowhere.td".to_string();
            let text = format!("class Nowhere{f};\n");
            if v % 2 == 0 {
                if nowhere_on_disk.is_some() {
                    let _ = std::fs::remove_file(s.tw.path(&nw));
                    nowhere_on_disk = None;
                    if !s.opened.contains(&nw) {
                        model.remove(&nw);
                    }
                } else {
                    s.tw.write(&nw, &text);
                    nowhere_on_disk = Some(text.clone());
                    if !s.opened.contains(&nw) {
                        model.insert(nw.clone(), text);
                    }
                }
                structural = true;
                continue;
            }
            if s.opened.contains(&nw) {
                s.close(&nw);
                match &nowhere_on_disk {
                    Some(t) => {
                        model.insert(nw.clone(), t.clone());
                    }
                    None => {
                        model.remove(&nw);
                    }
                }
                continue;
            }
            model.insert(nw.clone(), text.clone());
            if !s.touch(&nw, &text) {
                verdict = Some(Verdict::Skip("not-idle"));
                break;
            }
            structural = true;
            if let Err((what, detail)) = compare_with_fresh(&mut s, &model, &nw) {
                verdict = Some(if what.is_empty() {
                    Verdict::Skip("no-response")
                } else {
                    Verdict::Fail(Failure::new("C07.server-differs-from-fresh", format!("C07.server-differs-from-fresh:{what}"), format!("server history {} step {step}: {detail}", case["ops"])))
                });
                break;
            }
            continue;
        }
        if kind % 5 == 1 {
            // close: the disk text is the truth again; observed at the next analysed step
            if s.opened.contains(&name) {
                s.close(&name);
                model.insert(name.clone(), disk[f].1.clone());
            }
            continue;
        }
        if kind % 5 == 3 {
            // the file is rewritten on disk with a text of the SAME length (its class is renamed K<f> <-> Q<f>,
            // which every user of the class notices) and, as always here, the same modification time
            let cur = disk[f].1.clone();
            let t = if cur.contains(&format!("class K{f}")) { cur.replacen(&format!("class K{f}"), &format!("class Q{f}"), 1) } else { cur.replacen(&format!("class Q{f}"), &format!("class K{f}"), 1) };
            s.tw.write(&name, &t);
            disk[f].1 = t.clone();
            if !s.opened.contains(&name) {
                if model[&name] != t {
                    structural = true;
                }
                model.insert(name.clone(), t);
            }
            continue;
        }
        if kind % 5 == 2 {
            // the file changes on disk (same modification time, as scratch files always have): the new
            // text is the truth for a document that is not open; observed at the next analysed step
            let t = variant_text(f, v as usize % NVARIANTS);
            s.tw.write(&name, &t);
            disk[f].1 = t.clone();
            if !s.opened.contains(&name) {
                if model[&name] != t {
                    structural = true;
                }
                model.insert(name.clone(), t);
            }
            continue;
        }
        let mut t = variant_text(f, v as usize % NVARIANTS);
        // the upper half of the variants: the same bytes with the line breaks after `;` and `}` turned
        // into blanks - every offset stays, every line and column moves
        if (v as usize / NVARIANTS) % 2 == 1 {
            t = super::c09::relayout(&t);
        }
        if model[&name] != t && v % 8 != 0 {
            structural = true;
        }
        model.insert(name.clone(), t.clone());
        if !s.touch(&name, &t) {
            verdict = Some(Verdict::Skip("not-idle"));
            break;
        }
        touches += 1;
        match compare_with_fresh(&mut s, &model, &name) {
            Ok(()) => {}
            Err((what, _)) if what.is_empty() => {
                verdict = Some(Verdict::Skip("no-response"));
                break;
            }
            Err((what, detail)) => {
                verdict = Some(Verdict::Fail(Failure::new(
                    "C07.server-differs-from-fresh",
                    format!("C07.server-differs-from-fresh:{what}"),
                    format!("server history {} step {step}: {detail}", case["ops"]),
                )));
                break;
            }
        }
    }
    s.finish();
    verdict.unwrap_or(Verdict::pass(touches >= 2 && structural))
}
