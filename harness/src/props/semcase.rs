//! Cases built from the SEM generator: `{"kind":"sem","seed":S,"n":N,"opts":"clean"|"probes"}`.
use serde_json::json;

use crate::fw::{Case, Failure, Rng, Verdict};
use crate::ws::{pos, r2};
use crate::gen::sem::{self, Opts, Program};
use crate::ws::Workspace;

pub fn sem_case(rng: &mut Rng, probes: bool) -> Case {
    let mut c = json!({"kind": "sem", "seed": rng.next() >> 16, "n": 3 + rng.below(9), "opts": if probes { "probes" } else { "clean" }});
    if rng.chance(1, 4) {
        c["crlf"] = json!(true);
    }
    c
}

pub fn program_of(case: &Case) -> Option<Program> {
    let seed = case.get("seed")?.as_u64()?;
    let n = case.get("n")?.as_u64()? as usize;
    let opts = if case.get("opts")?.as_str()? == "probes" { Opts::WithProbes } else { Opts::Clean };
    let p = sem::program_from(seed, n.min(40), opts);
    Some(if case.get("crlf").and_then(|x| x.as_bool()) == Some(true) { p.to_crlf() } else { p })
}

pub fn workspace_of(p: &Program) -> Workspace {
    Workspace::new(&p.files, &p.files[0].0)
}

pub fn show(p: &Program) -> String {
    p.files.iter().map(|(n, t)| format!("--- {n}\n{t}")).collect::<Vec<_>>().join("\n")
}

/// hand-written regression cases: `{"kind":"manual","files":{..},"expect":[{"at":"<marker text>","nth":k,"def":"<marker text>"|null,"def_nth":k,"diag":bool}]}`
/// positions are given by the k-th occurrence of a text snippet in root.td (robust against re-indentation)
pub fn manual(case: &Case, prop: &str) -> Verdict {
    let Some((files, root)) = crate::ws::case_files(case) else { return Verdict::Skip("malformed-case") };
    let ws = crate::ws::Workspace::new(&files, &root);
    let a = ws.analysis();
    let text_of = |name: &str| files.iter().find(|f| f.0 == name).map(|f| f.1.clone()).unwrap_or_default();
    let nth_in = |text: &str, needle: &str, k: usize| -> Option<usize> {
        let mut from = 0;
        let mut found = None;
        for _ in 0..=k {
            let p = text[from..].find(needle)?;
            found = Some(from + p);
            from += p + needle.len();
        }
        found
    };
    // expectations about an included file: only "diag" is supported there
    for e in case["expect"].as_array().cloned().unwrap_or_default() {
        if let Some(fname) = e["file"].as_str() {
            let t = text_of(fname);
            let Some(at) = nth_in(&t, e["at"].as_str().unwrap_or("\u{0}"), 0) else { return Verdict::Skip("malformed-case") };
            let Some(fid) = ws.fs.id_of(&crate::ws::abs(fname)) else { return Verdict::Skip("malformed-case") };
            let ds = a.diagnostics();
            let covered = ds.get(&fid).map(|v| v.iter().any(|x| r2(x.location.range).0 <= at + 1 && r2(x.location.range).1 >= at)).unwrap_or(false);
            if e["diag"].as_bool() == Some(true) && !covered {
                return Verdict::Fail(Failure::new(&format!("{prop}.manual"), format!("{prop}.manual:{}", case["name"].as_str().unwrap_or("?")), format!("no diagnostic at {fname}:{at} ({})", e["at"])));
            }
        }
    }
    let text = text_of(&root);
    let nth = |needle: &str, k: usize| -> Option<usize> {
        let mut from = 0;
        let mut found = None;
        for _ in 0..=k {
            let p = text[from..].find(needle)?;
            found = Some(from + p);
            from += p + needle.len();
        }
        found
    };
    let diags = a.diagnostics();
    for e in case["expect"].as_array().cloned().unwrap_or_default() {
        if e["file"].is_string() {
            continue;
        }
        let Some(at) = nth(e["at"].as_str().unwrap_or("\u{0}"), e["nth"].as_u64().unwrap_or(0) as usize) else { return Verdict::Skip("malformed-case") };
        let got = a.goto_definition(pos(ws.root, at)).map(|t| (t.file, r2(t.range).0));
        let want = match e["def"].as_str() {
            Some(d) => match nth(d, e["def_nth"].as_u64().unwrap_or(0) as usize) {
                Some(p) => Some((ws.root, p)),
                None => return Verdict::Skip("malformed-case"),
            },
            None => None,
        };
        if e["skipdef"].as_bool() != Some(true) && got != want {
            return Verdict::Fail(Failure::new(&format!("{prop}.manual"), format!("{prop}.manual:{}", case["name"].as_str().unwrap_or("?")), format!("goto_definition at {at} ({}) gives {got:?}, expected {want:?}", e["at"])));
        }
        if e["diag"].as_bool() == Some(true) {
            let covered = diags.get(&ws.root).map(|v| v.iter().any(|x| r2(x.location.range).0 <= at && r2(x.location.range).1 > at)).unwrap_or(false);
            if !covered {
                return Verdict::Fail(Failure::new(&format!("{prop}.manual"), format!("{prop}.manual:{}", case["name"].as_str().unwrap_or("?")), format!("no diagnostic covers offset {at} ({})", e["at"])));
            }
        }
        if let Some(len) = e["hints_len"].as_u64() {
            // inlay hints for the range [at, at+len]: every returned hint must lie inside it
            let hs = a.inlay_hint(crate::ws::frange(ws.root, at, at + len as usize)).unwrap_or_default();
            for h in hs {
                let p = u32::from(h.position) as usize;
                if p < at || p > at + len as usize {
                    return Verdict::Fail(Failure::new(&format!("{prop}.manual"), format!("{prop}.manual:{}", case["name"].as_str().unwrap_or("?")), format!("hint {:?} at {p} outside the requested range {at}..{}", h.label, at + len as usize)));
                }
            }
        }
        if e["nodiag"].as_bool() == Some(true) {
            let all: Vec<String> = diags.values().flatten().map(|d| d.message.clone()).collect();
            if !all.is_empty() {
                return Verdict::Fail(Failure::new(&format!("{prop}.manual"), format!("{prop}.manual:{}", case["name"].as_str().unwrap_or("?")), format!("unexpected diagnostics {all:?}")));
            }
        }
    }
    Verdict::pass(true)
}
