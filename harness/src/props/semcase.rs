//! Cases built from the SEM generator: `{"kind":"sem","seed":S,"n":N,"opts":"clean"|"probes"}`.
use serde_json::json;

use crate::fw::{Case, Rng};
use crate::gen::sem::{self, Opts, Program};
use crate::ws::Workspace;

pub fn sem_case(rng: &mut Rng, probes: bool) -> Case {
    json!({"kind": "sem", "seed": rng.next() >> 16, "n": 3 + rng.below(9), "opts": if probes { "probes" } else { "clean" }})
}

pub fn program_of(case: &Case) -> Option<Program> {
    let seed = case.get("seed")?.as_u64()?;
    let n = case.get("n")?.as_u64()? as usize;
    let opts = if case.get("opts")?.as_str()? == "probes" { Opts::WithProbes } else { Opts::Clean };
    Some(sem::program_from(seed, n.min(40), opts))
}

pub fn workspace_of(p: &Program) -> Workspace {
    Workspace::new(&p.files, &p.files[0].0)
}

pub fn show(p: &Program) -> String {
    p.files.iter().map(|(n, t)| format!("--- {n}\n{t}")).collect::<Vec<_>>().join("\n")
}
