//! C10 — position mapping: byte offsets <-> LSP positions.
use async_lsp::lsp_types::{Position, Range};
use ide::line_index::LineIndex;
use serde_json::json;
use text_size::{TextRange, TextSize};

use crate::fw::*;
use crate::gen::{corpus, mutate};
use crate::refm::pos::RefPos;

pub struct C10;

pub const SYMS: [&str; 9] = ["a", " ", "\n", "\r", "é", "€", "😀", "\x0c", "\u{2028}"];

fn classify(text: &str, oracle: &str) -> String {
    // root-cause classes, most specific first
    let uni_break = text.chars().any(|c| matches!(c, '\x0b' | '\x0c' | '\u{85}' | '\u{2028}' | '\u{2029}'));
    let non_ascii = !text.is_ascii();
    if uni_break {
        format!("{oracle}:unicode-line-break-char")
    } else if non_ascii {
        format!("{oracle}:non-ascii")
    } else {
        oracle.to_string()
    }
}

pub fn check_text(text: &str) -> Result<usize, Failure> {
    let li = LineIndex::new(text);
    let rp = RefPos::new(text);
    let fail = |oracle: &str, detail: String| Failure::new(oracle, classify(text, oracle), format!("text {:?}: {detail}", text.chars().take(60).collect::<String>()));
    let mut checks = 0usize;
    // offsets -> positions -> offsets
    let mut offsets: Vec<usize> = text.char_indices().map(|(i, _)| i).collect();
    offsets.push(text.len());
    for &o in &offsets {
        let (rl, rc) = rp.to_pos(o);
        let p = lsp::to_proto::position(&li, TextSize::new(o as u32));
        checks += 1;
        if (p.line as usize, p.character as usize) != (rl, rc) {
            return Err(fail("C10.to-position", format!("offset {o} -> ({}, {}), reference ({rl}, {rc})", p.line, p.character)));
        }
        if !rp.inside_crlf(o) {
            let back = lsp::from_proto::position(&li, p);
            if u32::from(back) as usize != o {
                return Err(fail("C10.roundtrip", format!("offset {o} -> ({}, {}) -> {}", p.line, p.character, u32::from(back))));
            }
        }
        let l = li.pos_to_line(TextSize::new(o as u32));
        if l != rl {
            return Err(fail("C10.pos-to-line", format!("pos_to_line({o}) = {l}, reference {rl}")));
        }
    }
    // positions -> offsets, up to one past the extremes (lines past the end are unspecified)
    let maxw = (0..rp.lines()).map(|l| rp.width16(l)).max().unwrap_or(0);
    for line in 0..rp.lines() {
        let ls = li.line_to_pos(line);
        if u32::from(ls) as usize != rp.starts[line] {
            return Err(fail("C10.line-to-pos", format!("line_to_pos({line}) = {}, reference {}", u32::from(ls), rp.starts[line])));
        }
        for col in 0..=maxw + 1 {
            let Some(expect) = rp.from_pos(line, col) else { continue };
            let got = lsp::from_proto::position(&li, Position::new(line as u32, col as u32));
            checks += 1;
            if u32::from(got) as usize != expect {
                return Err(fail("C10.from-position", format!("({line}, {col}) -> {}, reference {expect}", u32::from(got))));
            }
        }
    }
    // ranges, component-wise
    if offsets.len() >= 2 {
        let a = offsets[offsets.len() / 3];
        let z = offsets[offsets.len() - 1 - offsets.len() / 4];
        if a <= z {
            let r = lsp::to_proto::range(&li, TextRange::new(TextSize::new(a as u32), TextSize::new(z as u32)));
            let (al, ac) = rp.to_pos(a);
            let (zl, zc) = rp.to_pos(z);
            if (r.start.line as usize, r.start.character as usize, r.end.line as usize, r.end.character as usize) != (al, ac, zl, zc) {
                return Err(fail("C10.to-range", format!("{a}..{z} -> {r:?}")));
            }
            if !rp.inside_crlf(a) && !rp.inside_crlf(z) {
                let back = lsp::from_proto::range(&li, Range::new(r.start, r.end));
                if (u32::from(back.start()) as usize, u32::from(back.end()) as usize) != (a, z) {
                    return Err(fail("C10.from-range", format!("{a}..{z} -> {r:?} -> {back:?}")));
                }
            }
        }
    }
    Ok(checks)
}

fn enumerate(len: usize, first: usize, emit: Emit) {
    // all strings of exactly `len` symbols whose first symbol is `first`
    let mut idx = vec![0usize; len];
    idx[0] = first;
    loop {
        let s: String = idx.iter().map(|&i| SYMS[i]).collect();
        if !emit(json!({"kind": "pos", "text": s})) {
            return;
        }
        let mut k = len;
        loop {
            if k == 1 {
                return;
            }
            k -= 1;
            if idx[k] + 1 < SYMS.len() {
                idx[k] += 1;
                break;
            }
            idx[k] = 0;
        }
    }
}

impl Property for C10 {
    fn id(&self) -> &'static str {
        "C10"
    }
    fn rule(&self) -> String {
        "exhaustive: every string of length <=6 (thorough <=8) over {a, space, LF, CR, é, €, 😀, FF, U+2028}; for each: every char-boundary offset (to_proto::position vs reference, round trip through from_proto::position except strictly inside a CRLF pair, LineIndex::pos_to_line), every (line, column) with line < lines and column <= max width+1 (from_proto::position vs reference; columns inside a surrogate pair and lines past the end are unspecified and skipped), LineIndex::line_to_pos, one range. exhaustive family code-point-classes: the first and last code point of every UTF-8 and UTF-16 length class and one character per UTF-8 lead byte (C2..DF, E0..EF, F0..F4), alone, in pairs and around line breaks. random: mixed texts up to 4 KB with arbitrary scalar values, and vendored files (LF and CRLF). distinct = digest of text; non-trivial = the text contains a multi-byte char, CR, FF or U+2028".into()
    }
    fn assumptions(&self) -> Vec<String> {
        vec!["reference mapper RefPos written from the LSP specification (terminators LF, CRLF, CR; UTF-16 columns; clamping)".into()]
    }
    fn families(&self, ctx: &Ctx) -> Vec<Family> {
        let maxlen = ctx.tier.pick(6usize, 8usize);
        let mut v = Vec::new();
        v.push(Family::new("empty", 1, |_c, _r, emit| {
            emit(json!({"kind": "pos", "text": ""}));
        }).exhaustive());
        for len in 1..=maxlen {
            v.push(
                Family::new(&format!("strings-len{len}"), SYMS.len() as u64, move |chunk, _rng, emit| enumerate(len, chunk as usize, emit))
                    .exhaustive(),
            );
        }
        let mut fams = v;
        let all_exhaustive_marker = false;
        let _ = all_exhaustive_marker;
        // code points at the edges of every UTF-8 / UTF-16 length class and one per UTF-8 lead byte,
        // alone and in pairs, before and after other text and line breaks
        fams.push(
            Family::new("code-point-classes", 1, |_c, _rng, emit| {
                let mut cps: Vec<char> = Vec::new();
                for cp in [0x7Fu32, 0x80, 0xFF, 0x7FF, 0x800, 0xFFF, 0x1000, 0xD7FF, 0xE000, 0xFEFF, 0xFFFD, 0xFFFF, 0x10000, 0x1FFFF, 0x3FFFF, 0x40000, 0xFFFFF, 0x100000, 0x10FFFF] {
                    cps.extend(char::from_u32(cp));
                }
                // one character per lead byte C2..DF, E0..EF, F0..F4
                for lead in 0xC2u32..=0xDF {
                    cps.extend(char::from_u32((lead & 0x1F) << 6 | 0x21));
                }
                for lead in 0xE0u32..=0xEF {
                    let cp = (lead & 0x0F) << 12 | if lead == 0xE0 { 0x821 } else if lead == 0xED { 0x021 } else { 0x021 };
                    cps.extend(char::from_u32(cp));
                }
                for lead in 0xF0u32..=0xF4 {
                    let cp = (lead & 0x07) << 18 | if lead == 0xF0 { 0x10021 } else { 0x21 };
                    cps.extend(char::from_u32(cp));
                }
                cps.sort();
                cps.dedup();
                for (i, &c) in cps.iter().enumerate() {
                    let d = cps[(i * 7 + 3) % cps.len()];
                    for t in [format!("{c}"), format!("a{c}b"), format!("{c}{d}x\n{d}{c}"), format!("x{c}\r\n{c}y{d}\rz{d}{c}\n")] {
                        if !emit(json!({"kind": "pos", "text": t})) {
                            return;
                        }
                    }
                }
            })
            .exhaustive(),
        );
        fams.push(Family::new("random-long", ctx.tier.pick(16, 1024), |_c, rng, emit| {
            for _ in 0..40 {
                let n = 1 + rng.below(1500);
                let mut s = String::new();
                for _ in 0..n {
                    let r = rng.below(40);
                    if r < SYMS.len() {
                        s.push_str(SYMS[r]);
                    } else if r < 14 {
                        s.push_str("\r\n");
                    } else if r < 18 {
                        // any scalar value
                        let cp = (rng.next() % 0x110000) as u32;
                        s.push(char::from_u32(cp).filter(|c| !matches!(c, '\n' | '\r')).unwrap_or('\u{800}'));
                    } else {
                        s.push((b'a' + (r as u8 % 26)) as char);
                    }
                }
                if !emit(json!({"kind": "pos", "text": s})) {
                    return;
                }
            }
        }));
        fams.push(Family::new("corpus", 1, |_c, rng, emit| {
            for (_, text) in corpus::seeds().iter() {
                if !emit(json!({"kind": "pos", "text": text})) {
                    return;
                }
                if !emit(json!({"kind": "pos", "text": mutate::to_crlf(text)})) {
                    return;
                }
            }
            for (_, text) in corpus::llvm().iter().take(12) {
                let mut z = text.len().min(6000);
                while !text.is_char_boundary(z) {
                    z -= 1;
                }
                let t = mutate::insert_non_ascii(&text[..z], rng, 5);
                if !emit(json!({"kind": "pos", "text": mutate::to_crlf(&t)})) {
                    return;
                }
            }
        }));
        fams
    }
    fn run_case(&self, _ctx: &Ctx, case: &Case) -> Verdict {
        let Some(text) = case.get("text").and_then(|t| t.as_str()) else { return Verdict::Skip("malformed-case") };
        match check_text(text) {
            Ok(_) => Verdict::pass(!text.is_ascii() || text.contains('\r') || text.contains('\x0c')),
            Err(f) => Verdict::Fail(f),
        }
    }
}
