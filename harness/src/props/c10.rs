//! C10 — position mapping: byte offsets <-> LSP positions.
use async_lsp::lsp_types::{Position, Range};
use ide::line_index::LineIndex;
use serde_json::json;
use text_size::{TextRange, TextSize};

use crate::fw::*;
use crate::gen::{corpus, mutate};
use crate::refm::pos::RefPos;

pub struct C10;

pub const SYMS: [&str; 9] = ["a", " ", "\n", "\r", "é", "€", "😀", "\x0c", "\u{2028}"];

fn classify(text: &str, oracle: &str) -> String {
    // root-cause classes, most specific first
    let uni_break = text.chars().any(|c| matches!(c, '\x0b' | '\x0c' | '\u{85}' | '\u{2028}' | '\u{2029}'));
    let non_ascii = !text.is_ascii();
    if uni_break {
        format!("{oracle}:unicode-line-break-char")
    } else if non_ascii {
        format!("{oracle}:non-ascii")
    } else {
        oracle.to_string()
    }
}

pub fn check_text(text: &str) -> Result<usize, Failure> {
    let li = LineIndex::new(text);
    let rp = RefPos::new(text);
    let fail = |oracle: &str, detail: String| Failure::new(oracle, classify(text, oracle), format!("text {:?}: {detail}", text.chars().take(60).collect::<String>()));
    let mut checks = 0usize;
    // offsets -> positions -> offsets
    let mut offsets: Vec<usize> = text.char_indices().map(|(i, _)| i).collect();
    offsets.push(text.len());
    for &o in &offsets {
        let (rl, rc) = rp.to_pos(o);
        let p = lsp::to_proto::position(&li, TextSize::new(o as u32));
        checks += 1;
        if (p.line as usize, p.character as usize) != (rl, rc) {
            return Err(fail("C10.to-position", format!("offset {o} -> ({}, {}), reference ({rl}, {rc})", p.line, p.character)));
        }
        if !rp.inside_crlf(o) {
            let back = lsp::from_proto::position(&li, p);
            if u32::from(back) as usize != o {
                return Err(fail("C10.roundtrip", format!("offset {o} -> ({}, {}) -> {}", p.line, p.character, u32::from(back))));
            }
        }
        let l = li.pos_to_line(TextSize::new(o as u32));
        if l != rl {
            return Err(fail("C10.pos-to-line", format!("pos_to_line({o}) = {l}, reference {rl}")));
        }
    }
    // positions -> offsets, up to one past the extremes (lines past the end are unspecified)
    let maxw = (0..rp.lines()).map(|l| rp.width16(l)).max().unwrap_or(0);
    for line in 0..rp.lines() {
        let ls = li.line_to_pos(line);
        if u32::from(ls) as usize != rp.starts[line] {
            return Err(fail("C10.line-to-pos", format!("line_to_pos({line}) = {}, reference {}", u32::from(ls), rp.starts[line])));
        }
        for col in 0..=maxw + 1 {
            let Some(expect) = rp.from_pos(line, col) else { continue };
            let got = lsp::from_proto::position(&li, Position::new(line as u32, col as u32));
            checks += 1;
            if u32::from(got) as usize != expect {
                return Err(fail("C10.from-position", format!("({line}, {col}) -> {}, reference {expect}", u32::from(got))));
            }
        }
    }
    // ranges, component-wise
    if offsets.len() >= 2 {
        let a = offsets[offsets.len() / 3];
        let z = offsets[offsets.len() - 1 - offsets.len() / 4];
        if a <= z {
            let r = lsp::to_proto::range(&li, TextRange::new(TextSize::new(a as u32), TextSize::new(z as u32)));
            let (al, ac) = rp.to_pos(a);
            let (zl, zc) = rp.to_pos(z);
            if (r.start.line as usize, r.start.character as usize, r.end.line as usize, r.end.character as usize) != (al, ac, zl, zc) {
                return Err(fail("C10.to-range", format!("{a}..{z} -> {r:?}")));
            }
            if !rp.inside_crlf(a) && !rp.inside_crlf(z) {
                let back = lsp::from_proto::range(&li, Range::new(r.start, r.end));
                if (u32::from(back.start()) as usize, u32::from(back.end()) as usize) != (a, z) {
                    return Err(fail("C10.from-range", format!("{a}..{z} -> {r:?} -> {back:?}")));
                }
            }
        }
    }
    Ok(checks)
}

/// one very long line (with wide characters at given places) after 0..2 short lines; the reference positions
/// are computed here from the definition (line = line breaks before the offset, column = UTF-16 units between
/// the line start and the offset), at sampled offsets only
fn long_line(case: &Case) -> Verdict {
    let (Some(len), Some(lead), Some(wide)) = (case["len"].as_u64(), case["lead"].as_u64(), case["wide"].as_array()) else { return Verdict::Skip("malformed-case") };
    let len = (len as usize).clamp(1, 400_000);
    let nl = if case["crlf"].as_bool() == Some(true) { "\r\n" } else { "\n" };
    let mut places: Vec<(usize, String)> = wide.iter().filter_map(|w| Some((w[0].as_u64()? as usize % len, w[1].as_str()?.to_string()))).collect();
    places.sort();
    places.dedup_by_key(|p| p.0);
    let mut text = String::new();
    for k in 0..lead as usize % 3 {
        text.push_str(&format!("// é line {k}{nl}"));
    }
    let line_no = lead as usize % 3;
    let line_start = text.len();
    let mut interesting: Vec<usize> = Vec::new();
    let mut next = places.iter().peekable();
    let mut col = 0usize;
    while col < len {
        if let Some((at, s)) = next.peek() {
            if *at <= col {
                interesting.push(text.len());
                text.push_str(s);
                interesting.push(text.len());
                col += s.len();
                next.next();
                continue;
            }
        }
        text.push((b'a' + (col % 23) as u8) as char);
        col += 1;
    }
    let line_end = text.len();
    if case["tail"].as_bool() == Some(true) {
        text.push_str(nl);
        text.push_str("def after;");
    }
    let mut offsets: Vec<usize> = vec![line_start, line_end, text.len()];
    for &i in &interesting {
        for d in 0..4 {
            offsets.push(i.saturating_sub(d));
            offsets.push(i + d);
        }
    }
    for p in [1usize << 15, 1 << 16, 1 << 17, 1 << 18] {
        for d in 0..3 {
            offsets.push(line_start + p + d);
            offsets.push((line_start + p).saturating_sub(d));
        }
    }
    let mut rng = Rng::new(digest(case));
    for _ in 0..300 {
        offsets.push(line_start + rng.below(line_end - line_start + 1));
    }
    offsets.retain(|&o| o <= text.len() && text.is_char_boundary(o));
    offsets.sort();
    offsets.dedup();
    let li = LineIndex::new(&text);
    let fail = |oracle: &str, detail: String| Verdict::Fail(Failure::new(oracle, format!("{oracle}:long-line"), format!("a line of {} bytes (line {line_no}, wide characters at line offsets {:?}): {detail}", line_end - line_start, places.iter().map(|p| p.0).collect::<Vec<_>>())));
    for &o in &offsets {
        let (rl, rc) = if o <= line_end {
            if o < line_start {
                continue;
            }
            (line_no, text[line_start..o].encode_utf16().count())
        } else if o >= line_end + nl.len() {
            (line_no + 1, text[line_end + nl.len()..o].encode_utf16().count())
        } else {
            continue;
        };
        let p = lsp::to_proto::position(&li, TextSize::new(o as u32));
        if (p.line as usize, p.character as usize) != (rl, rc) {
            return fail("C10.to-position", format!("offset {o} -> ({}, {}), by definition ({rl}, {rc})", p.line, p.character));
        }
        let back = lsp::from_proto::position(&li, p);
        if u32::from(back) as usize != o {
            return fail("C10.roundtrip", format!("offset {o} -> ({}, {}) -> {}", p.line, p.character, u32::from(back)));
        }
        let got = lsp::from_proto::position(&li, Position::new(rl as u32, rc as u32));
        if u32::from(got) as usize != o {
            return fail("C10.from-position", format!("({rl}, {rc}) -> {}, by definition {o}", u32::from(got)));
        }
    }
    // a column past the end of the long line means its end
    let past = lsp::from_proto::position(&li, Position::new(line_no as u32, (len + 10) as u32));
    if u32::from(past) as usize != line_end {
        return fail("C10.from-position", format!("column past the end of the line -> {}, the line ends at {line_end}", u32::from(past)));
    }
    Verdict::pass(!places.is_empty())
}

fn enumerate(len: usize, first: usize, emit: Emit) {
    // all strings of exactly `len` symbols whose first symbol is `first`
    let mut idx = vec![0usize; len];
    idx[0] = first;
    loop {
        let s: String = idx.iter().map(|&i| SYMS[i]).collect();
        if !emit(json!({"kind": "pos", "text": s})) {
            return;
        }
        let mut k = len;
        loop {
            if k == 1 {
                return;
            }
            k -= 1;
            if idx[k] + 1 < SYMS.len() {
                idx[k] += 1;
                break;
            }
            idx[k] = 0;
        }
    }
}

impl Property for C10 {
    fn id(&self) -> &'static str {
        "C10"
    }
    fn rule(&self) -> String {
        "exhaustive: every string of length <=6 (thorough <=8) over {a, space, LF, CR, é, €, 😀, FF, U+2028}; for each: every char-boundary offset (to_proto::position vs reference, round trip through from_proto::position except strictly inside a CRLF pair, LineIndex::pos_to_line), every (line, column) with line < lines and column <= max width+1 (from_proto::position vs reference; columns inside a surrogate pair and lines past the end are unspecified and skipped), LineIndex::line_to_pos, one range. exhaustive family code-point-classes: the first and last code point of every UTF-8 and UTF-16 length class and one character per UTF-8 lead byte (C2..DF, E0..EF, F0..F4), alone, in pairs and around line breaks. random: mixed texts up to 4 KB with arbitrary scalar values, and vendored files (LF and CRLF). distinct = digest of text; non-trivial = the text contains a multi-byte char, CR, FF or U+2028".into()
    }
    fn assumptions(&self) -> Vec<String> {
        vec!["reference mapper RefPos written from the LSP specification (terminators LF, CRLF, CR; UTF-16 columns; clamping)".into()]
    }
    fn families(&self, ctx: &Ctx) -> Vec<Family> {
        let maxlen = ctx.tier.pick(6usize, 8usize);
        let mut v = Vec::new();
        v.push(Family::new("empty", 1, |_c, _r, emit| {
            emit(json!({"kind": "pos", "text": ""}));
        }).exhaustive());
        for len in 1..=maxlen {
            v.push(
                Family::new(&format!("strings-len{len}"), SYMS.len() as u64, move |chunk, _rng, emit| enumerate(len, chunk as usize, emit))
                    .exhaustive(),
            );
        }
        let mut fams = v;
        let all_exhaustive_marker = false;
        let _ = all_exhaustive_marker;
        // code points at the edges of every UTF-8 / UTF-16 length class and one per UTF-8 lead byte,
        // alone and in pairs, before and after other text and line breaks
        fams.push(
            Family::new("code-point-classes", 1, |_c, _rng, emit| {
                let mut cps: Vec<char> = Vec::new();
                for cp in [0x7Fu32, 0x80, 0xFF, 0x7FF, 0x800, 0xFFF, 0x1000, 0xD7FF, 0xE000, 0xFEFF, 0xFFFD, 0xFFFF, 0x10000, 0x1FFFF, 0x3FFFF, 0x40000, 0xFFFFF, 0x100000, 0x10FFFF] {
                    cps.extend(char::from_u32(cp));
                }
                // one character per lead byte C2..DF, E0..EF, F0..F4
                for lead in 0xC2u32..=0xDF {
                    cps.extend(char::from_u32((lead & 0x1F) << 6 | 0x21));
                }
                for lead in 0xE0u32..=0xEF {
                    let cp = (lead & 0x0F) << 12 | if lead == 0xE0 { 0x821 } else if lead == 0xED { 0x021 } else { 0x021 };
                    cps.extend(char::from_u32(cp));
                }
                for lead in 0xF0u32..=0xF4 {
                    let cp = (lead & 0x07) << 18 | if lead == 0xF0 { 0x10021 } else { 0x21 };
                    cps.extend(char::from_u32(cp));
                }
                cps.sort();
                cps.dedup();
                for (i, &c) in cps.iter().enumerate() {
                    let d = cps[(i * 7 + 3) % cps.len()];
                    for t in [format!("{c}"), format!("a{c}b"), format!("{c}{d}x\n{d}{c}"), format!("x{c}\r\n{c}y{d}\rz{d}{c}\n")] {
                        if !emit(json!({"kind": "pos", "text": t})) {
                            return;
                        }
                    }
                }
            })
            .exhaustive(),
        );
        fams.push(Family::new("random-long", ctx.tier.pick(16, 1024), |_c, rng, emit| {
            for _ in 0..40 {
                let n = 1 + rng.below(1500);
                let mut s = String::new();
                for _ in 0..n {
                    let r = rng.below(40);
                    if r < SYMS.len() {
                        s.push_str(SYMS[r]);
                    } else if r < 14 {
                        s.push_str("\r\n");
                    } else if r < 18 {
                        // any scalar value
                        let cp = (rng.next() % 0x110000) as u32;
                        s.push(char::from_u32(cp).filter(|c| !matches!(c, '\n' | '\r')).unwrap_or('\u{800}'));
                    } else {
                        s.push((b'a' + (r as u8 % 26)) as char);
                    }
                }
                if !emit(json!({"kind": "pos", "text": s})) {
                    return;
                }
            }
        }));
        // lines longer than 2^16 and 2^17 bytes (generated tables, minified text) with wide characters far
        // into them: positions around every wide character, around the powers of two, and sampled ones
        fams.push(Family::new("long-lines", ctx.tier.pick(2, 16), |_c, rng, emit| {
            for _ in 0..12 {
                let len = [65_530 + rng.below(16), 65_536 + rng.below(5000), 131_070 + rng.below(8), 70_000 + rng.below(200_000)][rng.below(4)];
                let lead = rng.below(3);
                let nwide = 1 + rng.below(6);
                let wide: Vec<_> = (0..nwide)
                    .map(|k| {
                        let at = match rng.below(4) {
                            0 => 65_530 + rng.below(12),
                            1 => rng.below(len),
                            2 => len - 1 - rng.below(len.min(40)),
                            _ => (65_536 + rng.below(len.saturating_sub(65_536).max(1))).min(len - 1),
                        };
                        let w = ["é", "€", "😀", "\u{800}", "\u{a0}"][(k + rng.below(5)) % 5];
                        json!([at, w])
                    })
                    .collect();
                if !emit(json!({"kind": "long-line", "len": len, "lead": lead, "wide": wide, "crlf": rng.chance(1, 2), "tail": rng.chance(1, 2)})) {
                    return;
                }
            }
        }));
        fams.push(Family::new("corpus", 1, |_c, rng, emit| {
            for (_, text) in corpus::seeds().iter() {
                if !emit(json!({"kind": "pos", "text": text})) {
                    return;
                }
                if !emit(json!({"kind": "pos", "text": mutate::to_crlf(text)})) {
                    return;
                }
            }
            for (_, text) in corpus::llvm().iter().take(12) {
                let mut z = text.len().min(6000);
                while !text.is_char_boundary(z) {
                    z -= 1;
                }
                let t = mutate::insert_non_ascii(&text[..z], rng, 5);
                if !emit(json!({"kind": "pos", "text": mutate::to_crlf(&t)})) {
                    return;
                }
            }
        }));
        fams
    }
    fn run_case(&self, _ctx: &Ctx, case: &Case) -> Verdict {
        if case["kind"] == "long-line" {
            return long_line(case);
        }
        let Some(text) = case.get("text").and_then(|t| t.as_str()) else { return Verdict::Skip("malformed-case") };
        match check_text(text) {
            Ok(_) => Verdict::pass(!text.is_ascii() || text.contains('\r') || text.contains('\x0c')),
            Err(f) => Verdict::Fail(f),
        }
    }
}
