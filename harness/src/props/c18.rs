//! C18 — outline and folding mirror the declaration structure.
use std::collections::{BTreeMap, BTreeSet};

use ide::handlers::document_symbol::{DocumentSymbol, DocumentSymbolKind};

use super::semcase::{program_of, sem_case, show, workspace_of};
use crate::fw::*;
use serde_json::json;
use crate::gen::sem::{DeclKind, Program, Role};
use crate::ws::{abs, r2};

pub struct C18;

fn kind_of(k: DeclKind) -> Option<DocumentSymbolKind> {
    Some(match k {
        DeclKind::Class => DocumentSymbolKind::Class,
        DeclKind::Def => DocumentSymbolKind::Def,
        DeclKind::Defset => DocumentSymbolKind::Defset,
        DeclKind::Multiclass => DocumentSymbolKind::Multiclass,
        _ => return None,
    })
}

/// expected children of a class / def: template args in order, then field names -> allowed ranges
fn expected_children(p: &Program, owner: usize) -> (Vec<(String, (usize, usize))>, BTreeMap<String, Vec<(usize, usize)>>) {
    let targs: Vec<(String, (usize, usize))> =
        p.decls.iter().filter(|d| d.kind == DeclKind::TemplateArg && d.owner == Some(owner)).map(|d| (d.name.clone(), d.range)).collect();
    let mut fields: BTreeMap<String, Vec<(usize, usize)>> = BTreeMap::new();
    for d in p.decls.iter().filter(|d| d.kind == DeclKind::Field && d.owner == Some(owner)) {
        fields.entry(d.name.clone()).or_default().push(d.range);
    }
    for l in p.lets.iter().filter(|l| l.owner == owner) {
        fields.entry(l.field_name.clone()).or_default().push(l.name_range);
    }
    (targs, fields)
}

fn check_entry(p: &Program, sym: &DocumentSymbol, decl: usize, file: &str) -> Result<(), String> {
    let d = &p.decls[decl];
    if Some(format!("{:?}", sym.kind)) != kind_of(d.kind).map(|k| format!("{k:?}")) {
        return Err(format!("{file}: entry {:?} has kind {:?}, declared as {:?}", sym.name, sym.kind, d.kind));
    }
    if sym.name.as_str() != d.name || r2(sym.range) != d.range {
        return Err(format!("{file}: entry {:?} at {:?}, expected {:?} at {:?}", sym.name, r2(sym.range), d.name, d.range));
    }
    match d.kind {
        DeclKind::Class | DeclKind::Def => {
            let (targs, fields) = expected_children(p, decl);
            let kids = &sym.children;
            if kids.len() != targs.len() + fields.len() {
                return Err(format!(
                    "{file}: {:?} has children {:?}, expected template arguments {:?} then one entry per field of {:?}",
                    d.name,
                    kids.iter().map(|k| k.name.to_string()).collect::<Vec<_>>(),
                    targs.iter().map(|t| &t.0).collect::<Vec<_>>(),
                    fields.keys().collect::<Vec<_>>()
                ));
            }
            for (k, t) in kids.iter().zip(&targs) {
                if k.name.as_str() != t.0 || r2(k.range) != t.1 || !matches!(k.kind, DocumentSymbolKind::TemplateArgument) {
                    return Err(format!("{file}: {:?}: child {:?} {:?} at {:?}, expected template argument {:?} at {:?}", d.name, k.kind, k.name, r2(k.range), t.0, t.1));
                }
            }
            let mut seen = BTreeSet::new();
            for k in &kids[targs.len()..] {
                let Some(allowed) = fields.get(k.name.as_str()) else {
                    return Err(format!("{file}: {:?}: unexpected child {:?}", d.name, k.name));
                };
                if !matches!(k.kind, DocumentSymbolKind::Field) || !allowed.contains(&r2(k.range)) || !seen.insert(k.name.to_string()) {
                    return Err(format!("{file}: {:?}: field child {:?} {:?} at {:?}, allowed ranges {allowed:?} (once)", d.name, k.kind, k.name, r2(k.range)));
                }
            }
            Ok(())
        }
        _ => Ok(()),
    }
}

const DISABLED_TAIL: &str = "#ifdef C18_NOT_DEFINED\nclass HiddenA { int x = 1; }\n#ifdef C18_INNER\ndef HiddenB;\n#else\ndef HiddenC { int y = 2; }\nmulticlass HiddenM { def _x; }\n#endif\ndefset list<HiddenA> HiddenS = { def HiddenD : HiddenA; }\nforeach i = [1, 2] in { def HiddenE#i; }\n#else\n#endif\n";

impl Property for C18 {
    fn id(&self) -> &'static str {
        "C18"
    }
    fn rule(&self) -> String {
        "SEM programs (declarations nested in foreach / if / let / defset / multiclass, optional parts present or absent, root + headers). Outline per file, in source order: every class, identifier-named def (defs inside a defset as that defset's children), defset and multiclass declared in that file with kind, name and the declaring identifier's range; class children = template arguments in order then one entry per distinct field declared or overridden in the body (range = one of that name's identifiers); def children = its fields. Entries for defs inside multiclass bodies and defs named by a paste expression are not asserted (filtered by name before comparing). Family unresolved-parent (exhaustive, 128 cases): a def or class with parents P1, P2 (: P0), P3 one of which is replaced by an undeclared class; its children are its own field and the overrides of the fields that reach it through the parents that resolve. Folding: exactly one range per class/def/defset/foreach/if/let/multiclass statement, from its first token to its last non-trivia token, pairwise nested or disjoint. distinct = (seed, n); non-trivial = >=2 nesting constructs and a defset or multiclass".into()
    }
    fn families(&self, ctx: &Ctx) -> Vec<Family> {
        vec![
            Family::new("sem-programs", ctx.tier.pick(500, 80000), |_c, rng, emit| {
                for _ in 0..50 {
                    if !emit(sem_case(rng, false)) {
                        return;
                    }
                }
            }),
            // a record one of whose parents cannot be resolved (a typo, a file not included yet): what it
            // overrides of the fields of its other parents is in its outline all the same
            Family::new("unresolved-parent", 1, |_c, _r, emit| {
                for missing in 0..4u64 {
                    for lets in 0..16u64 {
                        for kind in 0..2u64 {
                            if !emit(json!({"kind": "unresolved-parent", "missing": missing, "lets": lets, "record": kind})) {
                                return;
                            }
                        }
                    }
                }
            })
            .exhaustive(),
            // a def whose name is in use already - as the name of an earlier defm (whose records are called
            // otherwise), or as that of a def of another multiclass - is a named def like any other: at top level,
            // in a block, in a defset, with and without fields
            Family::new("names-in-use", 1, |_c, _r, emit| {
                for place in 0..4u64 {
                    for shape in 0..3u64 {
                        for fields in 0..2u64 {
                            if !emit(json!({"kind": "names-in-use", "place": place, "shape": shape, "fields": fields})) {
                                return;
                            }
                        }
                    }
                }
            })
            .exhaustive(),
        ]
    }
    fn run_case(&self, _ctx: &Ctx, case: &Case) -> Verdict {
        if case["kind"] == "names-in-use" {
            let (Some(place), Some(shape), Some(fields)) = (case["place"].as_u64(), case["shape"].as_u64(), case["fields"].as_u64()) else { return Verdict::Skip("malformed-case") };
            // what makes the name known before the def: a defm of that name (its records are R0_lo, R0_hi), a def
            // of that name inside a multiclass (a part of the names of other records), both
            let before = match shape % 3 {
                0 => "multiclass Pair { def _lo : Reg; def _hi : Reg; }\ndefm R0 : Pair;\n",
                1 => "multiclass Pair { def R0 : Reg; def _hi : Reg; }\n",
                _ => "multiclass Pair { def R0 : Reg; }\nmulticlass Quad { def R0 : Reg; defm _p : Pair; }\ndefm R0 : Quad;\n",
            };
            let body = if fields % 2 == 1 { " { int x = 1; let y = 2; }" } else { ";" };
            let decl = format!("def R0 : Reg{body}");
            let (open, close) = match place % 4 {
                0 => ("", ""),
                1 => ("let y = 3 in {\n", "\n}"),
                2 => ("if 1 then {\n", "\n}"),
                _ => ("defset list<Reg> All = {\n", "\n}"),
            };
            let head = "class Reg { int y = 0; }\n";
            let text = format!("{head}{before}{open}{decl}{close}\ndef after : Reg;\n");
            let at = head.len() + before.len() + open.len() + "def ".len();
            let ws = crate::ws::Workspace::new(&[("root.td".to_string(), text.clone())], "root.td");
            let a = ws.analysis();
            let syms = a.document_symbol(ws.root).unwrap_or_default();
            let pool: Vec<&DocumentSymbol> = if place % 4 == 3 {
                match syms.iter().find(|s| s.name == "All") {
                    Some(s) => s.children.iter().collect(),
                    None => return Verdict::Fail(Failure::plain("C18.outline", format!("no outline entry for the defset All in\n{text}"))),
                }
            } else {
                syms.iter().collect()
            };
            let hits: Vec<&&DocumentSymbol> = pool.iter().filter(|s| r2(s.range) == (at, at + 2)).collect();
            let show = |v: &[&DocumentSymbol]| v.iter().map(|s| format!("{}@{:?}", s.name, r2(s.range))).collect::<Vec<_>>();
            if hits.len() != 1 || hits[0].name != "R0" || !matches!(hits[0].kind, DocumentSymbolKind::Def) {
                return Verdict::Fail(Failure::new("C18.outline-entry", "C18.outline-entry:names-in-use", format!("the def R0 at {at} is not listed once, as a def of that name at its identifier: entries {:?}\n{text}", show(&pool))));
            }
            let kids: Vec<String> = hits[0].children.iter().map(|c| c.name.to_string()).collect();
            let want: Vec<String> = if fields % 2 == 1 { vec!["x".into(), "y".into()] } else { vec![] };
            if kids != want {
                return Verdict::Fail(Failure::new("C18.outline-entry", "C18.outline-entry:names-in-use", format!("children of the def R0: {kids:?}, expected {want:?}\n{text}")));
            }
            if !syms.iter().any(|s| s.name == "after") {
                return Verdict::Fail(Failure::new("C18.outline", "C18.outline:names-in-use", format!("the def behind it is missing: {:?}\n{text}", show(&syms.iter().collect::<Vec<_>>()))));
            }
            return Verdict::pass(true);
        }
        if case["kind"] == "unresolved-parent" {
            let (Some(missing), Some(lets), Some(kind)) = (case["missing"].as_u64(), case["lets"].as_u64(), case["record"].as_u64()) else { return Verdict::Skip("malformed-case") };
            // parents P1, P2 (which inherits a0 from P0), P3; position `missing` (0..3) is replaced by an undeclared
            // class, 3 = none. Lets of a1 (P1), a0 and a2 (through P2), a3 (P3), chosen by the bits of `lets`.
            let mut parents = vec!["P1", "P2", "P3"];
            if (missing as usize) < 3 {
                parents[missing as usize] = "Missing";
            }
            let fields = [("a1", 0usize), ("a0", 1), ("a2", 1), ("a3", 2)];
            let mut body = String::from("  int own = 9;\n");
            let mut want: Vec<String> = vec!["own".into()];
            for (k, (f, via)) in fields.iter().enumerate() {
                if lets >> k & 1 == 1 {
                    body.push_str(&format!("  let {f} = {k};\n"));
                    if *via != missing as usize {
                        want.push(f.to_string());
                    }
                }
            }
            let head = if kind % 2 == 0 { "def r" } else { "class R" };
            let text = format!("class P0 {{ int a0 = 0; }}\nclass P1 {{ int a1 = 1; }}\nclass P2 : P0 {{ int a2 = 2; }}\nclass P3 {{ int a3 = 3; }}\n{head} : {} {{\n{body}}}\n", parents.join(", "));
            let ws = crate::ws::Workspace::new(&[("root.td".to_string(), text.clone())], "root.td");
            let a = ws.analysis();
            let syms = a.document_symbol(ws.root).unwrap_or_default();
            let name = if kind % 2 == 0 { "r" } else { "R" };
            let Some(entry) = syms.iter().find(|s| s.name == name) else {
                return Verdict::Fail(Failure::plain("C18.outline", format!("no outline entry for {name} in\n{text}")));
            };
            let got: Vec<String> = entry.children.iter().map(|c| c.name.to_string()).collect();
            if got != want {
                return Verdict::Fail(Failure::new("C18.outline-entry", "C18.outline-entry:unresolved-parent", format!("children of {name}: {got:?}, expected {want:?} (overrides of fields that reach the record through a parent that resolves)\n{text}")));
            }
            return Verdict::pass(missing < 3 && lets != 0);
        }
        let Some(mut p) = program_of(case) else { return Verdict::Skip("malformed-case") };
        // every third program ends with a switched-off region full of declarations and blocks (with a conditional
        // of two branches nested in it): text that is not part of the program adds nothing to outline and folding
        if case["seed"].as_u64().unwrap_or(1) % 3 == 0 {
            p.files[0].1.push_str(DISABLED_TAIL);
        }
        let ws = workspace_of(&p);
        let a = ws.analysis();
        let fail = |oracle: &str, detail: String| Verdict::Fail(Failure::plain(oracle, format!("{detail}\n{}", show(&p))));
        for (fi, (fname, _text)) in p.files.iter().enumerate() {
            let Some(fid) = ws.fs.id_of(&abs(fname)) else { continue };
            // ---- outline
            let optional_names: BTreeSet<&str> =
                p.stmts.iter().filter(|s| s.file == fi && s.optional).filter_map(|s| s.decl).map(|d| p.decls[d].name.as_str()).collect();
            let mut expected: Vec<usize> = p
                .stmts
                .iter()
                .filter(|s| s.file == fi && !s.optional && s.in_defset.is_none())
                .filter_map(|s| s.decl)
                .filter(|d| kind_of(p.decls[*d].kind).is_some())
                .collect();
            expected.sort_by_key(|d| p.decls[*d].range.0);
            let actual = a.document_symbol(fid).unwrap_or_default();
            let actual: Vec<&DocumentSymbol> = actual.iter().filter(|s| !optional_names.contains(s.name.as_str())).collect();
            if actual.len() != expected.len() {
                return fail(
                    "C18.outline",
                    format!(
                        "{fname}: outline lists {:?}, expected {:?}",
                        actual.iter().map(|s| s.name.to_string()).collect::<Vec<_>>(),
                        expected.iter().map(|d| p.decls[*d].name.clone()).collect::<Vec<_>>()
                    ),
                );
            }
            for (s, d) in actual.iter().zip(&expected) {
                if let Err(e) = check_entry(&p, s, *d, fname) {
                    return fail("C18.outline-entry", e);
                }
                if p.decls[*d].kind == DeclKind::Defset {
                    let members: Vec<usize> = p.stmts.iter().filter(|st| st.in_defset == Some(*d)).filter_map(|st| st.decl).collect();
                    if s.children.len() != members.len() {
                        return fail("C18.defset-children", format!("{fname}: defset {:?} has children {:?}, expected {:?}", s.name, s.children.iter().map(|c| c.name.to_string()).collect::<Vec<_>>(), members.iter().map(|m| p.decls[*m].name.clone()).collect::<Vec<_>>()));
                    }
                    for (c, m) in s.children.iter().zip(&members) {
                        if let Err(e) = check_entry(&p, c, *m, fname) {
                            return fail("C18.defset-children", e);
                        }
                    }
                }
            }
            // ---- folding
            const FOLD: [&str; 7] = ["Class", "Def", "Defset", "Foreach", "If", "Let", "MultiClass"];
            let mut want: Vec<(usize, usize)> = p.stmts.iter().filter(|s| s.file == fi && FOLD.contains(&s.kind)).map(|s| s.range).collect();
            want.sort();
            let mut got: Vec<(usize, usize)> = a.folding_range(fid).unwrap_or_default().iter().map(|r| r2(r.range)).collect();
            got.sort();
            if got != want {
                let missing: Vec<_> = want.iter().filter(|w| !got.contains(w)).collect();
                let extra: Vec<_> = got.iter().filter(|g| !want.contains(g)).collect();
                return fail("C18.folding", format!("{fname}: folding ranges differ: missing {missing:?}, unexpected {extra:?}"));
            }
            for (i, x) in got.iter().enumerate() {
                for y in &got[i + 1..] {
                    let disjoint = x.1 <= y.0 || y.1 <= x.0;
                    let nested = (x.0 <= y.0 && y.1 <= x.1) || (y.0 <= x.0 && x.1 <= y.1);
                    if !disjoint && !nested {
                        return fail("C18.folding-overlap", format!("{fname}: folding ranges {x:?} and {y:?} overlap without nesting"));
                    }
                }
            }
        }
        let _ = Role::Decl(0);
        Verdict::pass(p.feat.nesting_constructs >= 2 && (p.feat.has_defset || p.feat.has_multiclass))
    }
    fn shrink_keep(&self) -> &'static [&'static str] {
        &["kind", "seed", "opts"]
    }
}
