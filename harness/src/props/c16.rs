//! C16 — include graphs: termination, exact reachability, links, single indexing.
use std::collections::{BTreeMap, BTreeSet};

use serde_json::json;

use super::wsq;
use crate::fw::*;
use crate::ws::{abs, pos, r2, Workspace, INC_DIR};

pub struct C16;

/// A case: n files f0..f{n-1} (root f0); `edges` bit i*n+j = file i includes file j (listed in
/// j order); `variant` selects the extras.
///   variant 0: plain
///   variant 1: f0 additionally includes a missing file
///   variant 2: the last file lives only in INCLUDE_DIR
///   variant 3: the last file exists in the including directory AND in INCLUDE_DIR (directory wins;
///              the INCLUDE_DIR copy declares a different class)
///   variant 4: every include statement is written twice
///   variant 5: f0's includes are nested inside a block: let / foreach / if / multiclass > foreach / defset
///   variant 8: every include statement has a comment between the keyword and the file name
///   variant 9: every file additionally has an include statement with an empty file name
///   variant 10: the files with an odd number are empty (zero bytes): files of the workspace like any other
///   variant 7: no file but the root declares anything by name: the others hold an include of a
///              missing file, their includes and an anonymous def of the root's class
///   variant 6: two directories: odd files live in INCLUDE_DIR, even files next to the root; both
///              directories hold their own common.td, which every file includes by the same text
fn build(n: usize, edges: u64, variant: u64) -> (Vec<(String, String)>, Vec<Vec<usize>>) {
    let mut files = Vec::new();
    let mut adj = vec![Vec::new(); n];
    let last = n - 1;
    for i in 0..n {
        let mut t = String::new();
        if variant == 10 && i % 2 == 1 {
            // an empty file: includes nothing, declares nothing
            files.push((format!("f{i}.td"), t));
            continue;
        }
        if variant == 7 && i > 0 {
            t.push_str(&format!("// file {i}\n"));
        } else {
            t.push_str(&format!("// file {i}\nclass K{i};\n"));
        }
        let mut incs = String::new();
        for j in 0..n {
            // a file that lives only in INCLUDE_DIR cannot see the workspace directory: it gets no includes
            if variant == 2 && i == last && n > 1 {
                break;
            }
            // a file in INCLUDE_DIR cannot name a file next to the root
            if variant == 6 && i % 2 == 1 && j % 2 == 0 {
                continue;
            }
            if edges >> (i * n + j) & 1 == 1 {
                adj[i].push(j);
                if variant == 8 {
                    incs.push_str(&format!("include /* generated */ \"f{j}.td\"\n"));
                    continue;
                }
                incs.push_str(&format!("include \"f{j}.td\"\n"));
                if variant == 4 {
                    incs.push_str(&format!("include \"f{j}.td\"\n"));
                }
            }
        }
        if i == 0 && variant == 1 {
            incs.push_str("include \"nowhere.td\"\n");
        }
        if variant == 9 {
            // an include statement whose file name is empty names no file
            if i == 0 {
                incs.push_str("include \"\"\n");
            } else {
                incs = format!("include \"\"\n{incs}");
            }
        }
        if i > 0 && (variant == 1 || variant == 7) {
            // every other file starts its includes with a missing file whose statement has the same
            // extent as the root's first include statement (f9 never exists: at most 8 files)
            incs = format!("include \"f9.td\"\n{incs}");
        }
        if i == 0 && variant == 5 && !incs.is_empty() {
            // the root's includes are nested in a block; which kind depends on the graph
            match edges % 5 {
                4 => t.push_str(&format!("defset list<K0> ZS = {{\n{incs}}}\n")),
                0 => t.push_str(&format!("let zz = 1 in {{\n{incs}}}\n")),
                1 => t.push_str(&format!("foreach zi = [1] in {{\n{incs}}}\n")),
                // (the include statements spread over both branches of the if, by graph)
                2 => {
                    let lines: Vec<&str> = incs.lines().collect();
                    let k = (edges as usize / 5) % (lines.len() + 1);
                    let join = |ls: &[&str]| ls.iter().map(|l| format!("{l}\n")).collect::<String>();
                    if k == lines.len() {
                        t.push_str(&format!("if 1 then {{\n{incs}}}\n"));
                    } else {
                        t.push_str(&format!("if 1 then {{\n{}}} else {{\n{}}}\n", join(&lines[..k]), join(&lines[k..])));
                    }
                }
                _ => t.push_str(&format!("multiclass ZM {{\n  foreach zi = [1] in {{\n{incs}  }}\n}}\n")),
            }
        } else {
            t.push_str(&incs);
        }
        if variant == 7 {
            if i > 0 {
                t.push_str("def : K0;\n");
            }
        } else {
            for &j in &adj[i] {
                if variant == 10 && j % 2 == 1 {
                    continue;
                }
                t.push_str(&format!("def d{i}_{j} : K{j};\n"));
            }
        }
        if variant == 6 {
            t.push_str(&format!("include \"common.td\"\ndef c{i} : Common{};\n", if i % 2 == 1 { "Inc" } else { "Ws" }));
        }
        let path = if (i == last && n > 1 && variant == 2) || (variant == 6 && i % 2 == 1) { format!("{INC_DIR}/f{i}.td") } else { format!("f{i}.td") };
        files.push((path, t));
    }
    if variant == 6 {
        files.push(("common.td".to_string(), "class CommonWs;\n".to_string()));
        files.push((format!("{INC_DIR}/common.td"), "class CommonInc;\n".to_string()));
    }
    if variant == 3 && n > 1 {
        files.push((format!("{INC_DIR}/f{last}.td"), format!("class WRONG{last};\n")));
    }
    (files, adj)
}

fn find_all(text: &str, needle: &str) -> Vec<usize> {
    let mut v = Vec::new();
    let mut from = 0;
    while let Some(p) = text[from..].find(needle) {
        v.push(from + p);
        from += p + needle.len();
    }
    v
}

/// Stacked diamonds: a<i> includes b<i> and c<i>, which both include a<i+1>; `cross`: b<i> and c<i>
/// include each other as well. 3*levels+1 files, reached along 2^levels paths.
fn check_ladder(levels: usize, cross: bool) -> Verdict {
    let mut files: Vec<(String, String)> = Vec::new();
    let mut nedges = 0u64;
    for i in 0..=levels {
        let mut a = format!("class A{i};\n");
        if i < levels {
            a.push_str(&format!("include \"b{i}.td\"\ninclude \"c{i}.td\"\ndef da{i} : B{i};\n"));
            nedges += 2;
            for (x, y, cx, cy) in [("b", "c", "B", "C"), ("c", "b", "C", "B")] {
                let mut t = format!("class {cx}{i};\ninclude \"a{}.td\"\ndef d{x}{i} : A{};\n", i + 1, i + 1);
                nedges += 1;
                if cross {
                    t.push_str(&format!("include \"{y}{i}.td\"\ndef e{x}{i} : {cy}{i};\n"));
                    nedges += 1;
                }
                files.push((format!("{x}{i}.td"), t));
            }
        }
        files.push((format!("a{i}.td"), a));
    }
    let total: usize = files.iter().map(|f| f.1.len()).sum();
    wsq::budgets_on(total);
    // every file is collected once and every include statement followed once
    ide::verif::reset(64 + 16 * (files.len() as u64 + nedges));
    let ws = Workspace::new(&files, "a0.td");
    let a = ws.analysis();
    let diags = a.diagnostics();
    let _ = a.document_symbol(ws.root);
    wsq::budgets_off();
    let fail = |oracle: &str, detail: String| Verdict::Fail(Failure::new(oracle, format!("{oracle}:ladder"), format!("ladder of {levels} diamonds (cross includes: {cross}): {detail}")));
    let got: BTreeSet<String> = diags.keys().filter_map(|f| ws.fs.path_of(*f)).collect();
    let want: BTreeSet<String> = files.iter().map(|f| abs(&f.0)).collect();
    if got != want {
        return fail("C16.reachability", format!("{} workspace files, expected {}", got.len(), want.len()));
    }
    for (name, text) in &files {
        let Some(fid) = ws.fs.id_of(&abs(name)) else { return fail("C16.reachability", format!("no id for {name}")) };
        let ds = diags.get(&fid).cloned().unwrap_or_default();
        if !ds.is_empty() {
            return fail("C16.spurious-diagnostic", format!("{name}: {:?}", ds.iter().map(|d| d.message.clone()).collect::<Vec<_>>()));
        }
        let links = a.document_link(fid).unwrap_or_default();
        let want_links = find_all(text, "include \"").len();
        if links.len() != want_links {
            return fail("C16.links", format!("{name}: {} links for {want_links} include statements", links.len()));
        }
    }
    Verdict::Pass { nontrivial: levels >= 2, labels: vec!["ladder of diamonds"] }
}

fn check(n: usize, edges: u64, variant: u64) -> Verdict {
    let (files, adj) = build(n, edges, variant);
    let total: usize = files.iter().map(|f| f.1.len()).sum();
    wsq::budgets_on(total);
    ide::verif::reset(64 + 8 * (n as u64) * (n as u64));
    let ws = Workspace::new(&files, "f0.td");
    let a = ws.analysis();
    let diags = a.diagnostics();
    // force the index as well while the budgets are armed
    let _ = a.document_symbol(ws.root);
    wsq::budgets_off();

    let nested = variant == 5;
    // reference reachability
    let mut reach = BTreeSet::new();
    let mut stack = vec![0usize];
    while let Some(i) = stack.pop() {
        if !reach.insert(i) {
            continue;
        }
        for &j in &adj[i] {
            stack.push(j);
        }
    }
    let path_of = |i: usize| -> String {
        if (i == n - 1 && n > 1 && variant == 2) || (variant == 6 && i % 2 == 1) {
            format!("{INC_DIR}/f{i}.td")
        } else {
            abs(&format!("f{i}.td"))
        }
    };
    let fail = |oracle: &str, detail: String| {
        let shape = if nested { ":nested-include" } else { "" };
        Verdict::Fail(Failure::new(oracle, format!("{oracle}{shape}"), format!("n={n} edges={edges:#b} variant={variant}: {detail}")))
    };

    // (2) workspace = reachable set
    let got: BTreeSet<String> = diags.keys().filter_map(|f| ws.fs.path_of(*f)).collect();
    let mut want: BTreeSet<String> = reach.iter().map(|&i| path_of(i)).collect();
    if variant == 6 {
        for &i in &reach {
            want.insert(if i % 2 == 1 { format!("{INC_DIR}/common.td") } else { abs("common.td") });
        }
    }
    if got != want {
        return fail("C16.reachability", format!("workspace files {got:?}, reference reachable set {want:?}"));
    }
    let class_name = |i: usize| format!("K{i}");
    for &i in &reach {
        let Some(fid) = ws.fs.id_of(&path_of(i)) else { return fail("C16.reachability", format!("no id for file {i}")) };
        let text = &files[i].1;
        // (3) links: one per include statement, on the string literal, to the expected target
        let links = a.document_link(fid).unwrap_or_default();
        let mut want_links: Vec<(usize, usize, String)> = Vec::new();
        for j in &adj[i] {
            let stmt = if variant == 8 { format!("include /* generated */ \"f{j}.td\"") } else { format!("include \"f{j}.td\"") };
            for p in find_all(text, &stmt) {
                let s = p + stmt.len() - format!("\"f{j}.td\"").len();
                want_links.push((s, s + format!("\"f{j}.td\"").len(), path_of(*j)));
            }
        }
        if variant == 6 {
            for p in find_all(text, "include \"common.td\"") {
                let s = p + "include ".len();
                want_links.push((s, s + "\"common.td\"".len(), if i % 2 == 1 { format!("{INC_DIR}/common.td") } else { abs("common.td") }));
            }
        }
        want_links.sort();
        let mut got_links: Vec<(usize, usize, String)> =
            links.iter().map(|l| (r2(l.range).0, r2(l.range).1, ws.fs.path_of(l.target).unwrap_or_default())).collect();
        got_links.sort();
        if got_links != want_links {
            return fail("C16.links", format!("file {i}: links {got_links:?}, expected {want_links:?}"));
        }
        // missing include: a diagnostic on that statement, and no other diagnostics anywhere
        let ds = diags.get(&fid).cloned().unwrap_or_default();
        let missing: Vec<(usize, usize)> = find_all(text, "include \"nowhere.td\"")
            .into_iter()
            .map(|p| (p, "include \"nowhere.td\"".len()))
            .chain(find_all(text, "include \"f9.td\"").into_iter().map(|p| (p, "include \"f9.td\"".len())))
            .chain(find_all(text, "include \"\"").into_iter().map(|p| (p, "include \"\"".len())))
            .collect();
        for (p, len) in &missing {
            let z = p + len;
            if !ds.iter().any(|d| {
                let (s, e) = r2(d.location.range);
                s >= *p && e <= z + 1 && s < z
            }) {
                return fail("C16.missing-include-diagnostic", format!("file {i}: no diagnostic on the include of a missing file at {p}..{z}; got {:?}", ds.iter().map(|d| (r2(d.location.range), d.message.clone())).collect::<Vec<_>>()));
            }
            // … reported once, however many paths lead to the file
            let count = ds.iter().filter(|d| r2(d.location.range).0 >= *p && r2(d.location.range).0 < z).count();
            if count != 1 {
                return fail("C16.single-indexing", format!("file {i}: {count} diagnostics on the include of a missing file at {p}..{z}"));
            }
        }
        let others: Vec<String> = ds
            .iter()
            .filter(|d| !missing.iter().any(|(p, len)| r2(d.location.range).0 >= *p && r2(d.location.range).0 < p + len))
            .map(|d| format!("{:?} {}", r2(d.location.range), d.message))
            .collect();
        if !others.is_empty() {
            return fail("C16.spurious-diagnostic", format!("file {i}: {others:?}"));
        }
        // (4) each declaration once
        let syms = a.document_symbol(fid).unwrap_or_default();
        let mut names: BTreeMap<String, usize> = BTreeMap::new();
        for s in &syms {
            *names.entry(s.name.to_string()).or_default() += 1;
        }
        let mut want_names: BTreeMap<String, usize> = BTreeMap::new();
        let empty = |k: usize| variant == 10 && k % 2 == 1;
        if (variant != 7 || i == 0) && !empty(i) {
            want_names.insert(class_name(i), 1);
        }
        if variant != 7 {
            for j in &adj[i] {
                if !empty(*j) {
                    want_names.insert(format!("d{i}_{j}"), 1);
                }
            }
        }
        if variant == 6 {
            want_names.insert(format!("c{i}"), 1);
        }
        if variant == 5 && i == 0 && edges % 5 == 3 && !adj[0].is_empty() {
            // the multiclass that holds the root's nested includes
            want_names.insert("ZM".to_string(), 1);
        }
        if variant == 5 && i == 0 && edges % 5 == 4 && !adj[0].is_empty() {
            // the defset that holds them
            want_names.insert("ZS".to_string(), 1);
        }
        if names != want_names {
            return fail("C16.single-indexing", format!("file {i}: outline {names:?}, expected {want_names:?}"));
        }
        // (5) references of the class declared here = its uses in every reachable includer
        if variant == 7 {
            if i == 0 {
                // the root's class is used once by every other reachable file, whatever number of paths leads there
                let decl = text.find("class K0").unwrap() + "class ".len();
                let refs = a.references(pos(fid, decl)).unwrap_or_default();
                let mut got_refs: Vec<(String, usize)> = refs.iter().map(|r| (ws.fs.path_of(r.file).unwrap_or_default(), r2(r.range).0)).collect();
                got_refs.sort();
                let mut want_refs: Vec<(String, usize)> = reach.iter().filter(|&&k| k > 0).map(|&k| (path_of(k), files[k].1.find("def : K0;").unwrap() + "def : ".len())).collect();
                want_refs.sort();
                if got_refs != want_refs {
                    return fail("C16.references", format!("class K0: references {got_refs:?}, expected {want_refs:?}"));
                }
            }
            continue;
        }
        if empty(i) {
            continue;
        }
        let decl = text.find(&format!("class K{i}")).unwrap() + "class ".len();
        let refs = a.references(pos(fid, decl)).unwrap_or_default();
        let mut got_refs: Vec<(String, usize)> = refs.iter().map(|r| (ws.fs.path_of(r.file).unwrap_or_default(), r2(r.range).0)).collect();
        got_refs.sort();
        let mut want_refs: Vec<(String, usize)> = Vec::new();
        for &k in &reach {
            if adj[k].contains(&i) {
                let t = &files[k].1;
                let p = t.find(&format!("def d{k}_{i} : K{i};")).unwrap() + format!("def d{k}_{i} : ").len();
                want_refs.push((path_of(k), p));
            }
        }
        if variant == 5 && i == 0 && edges % 5 == 4 && !adj[0].is_empty() {
            // the element type of the defset that holds the root's includes
            want_refs.push((path_of(0), text.find("list<K0>").unwrap() + "list<".len()));
        }
        want_refs.sort();
        if got_refs != want_refs {
            return fail("C16.references", format!("class K{i}: references {got_refs:?}, expected {want_refs:?}"));
        }
    }
    // non-trivial: cycle, diamond, missing target or search-path choice
    let indeg: Vec<usize> = (0..n).map(|j| reach.iter().filter(|&&i| adj[i].contains(&j)).count()).collect();
    let diamond = indeg.iter().any(|&d| d >= 2);
    let cyclic = {
        // a reachable node that can reach itself
        reach.iter().any(|&s| {
            let mut seen = BTreeSet::new();
            let mut st: Vec<usize> = adj[s].clone();
            while let Some(x) = st.pop() {
                if x == s {
                    return true;
                }
                if seen.insert(x) {
                    st.extend(adj[x].iter().copied());
                }
            }
            false
        })
    };
    Verdict::Pass {
        nontrivial: cyclic || diamond || variant != 0,
        labels: vec![if cyclic { "cyclic" } else if diamond { "diamond" } else { "tree" }],
    }
}

impl Property for C16 {
    fn id(&self) -> &'static str {
        "C16"
    }
    fn hang_is_violation(&self) -> bool {
        true
    }
    fn rule(&self) -> String {
        "exhaustive: every edge set (self-loops included) over <=3 files (thorough: <=4, all 65536) x 11 variants {plain, +missing includes (at the end of the root; first in every other file, with the same extent as the root's first include), last file only in INCLUDE_DIR, last file in both directory and INCLUDE_DIR, every include written twice, root's includes nested in a block (let / foreach / the two branches of an if / a foreach inside a multiclass / a defset, by graph), two directories that each hold their own common.td included everywhere by the same text, no file but the root declaring anything by name (the others hold a missing include, their includes and an anonymous def of the root's class: every diagnostic and every reference exactly once however many paths lead to a file), every include statement written with a comment between the keyword and the file name, an include statement with an empty file name in every file, every other file empty (zero bytes)}; family diamond-ladders: 1..89 stacked diamonds (up to 268 files reached along 2^89 paths, with and without cross includes inside a level) within a traversal budget linear in files + include statements; quick adds 3000 sampled 4-file graphs; thorough adds random graphs over 5..8 files. Each file = class K<i>; its include statements; one def per included file using that file's class. Oracle: set_root_file + index terminate (traversal budget), keys(diagnostics()) = reference reachable set, document links = one per resolvable include statement on its string literal with the reference target, a diagnostic on each unresolvable include and none elsewhere, each declaration once in its file's outline, references(K<j>) = its uses in every reachable includer. distinct = digest; non-trivial = the graph has a cycle or a diamond, or the variant is not plain".into()
    }
    fn assumptions(&self) -> Vec<String> {
        vec!["search order from the documentation: directory of the including file, then $INCLUDE_DIR (set once per process to a virtual directory)".into()]
    }
    fn families(&self, ctx: &Ctx) -> Vec<Family> {
        let mut v = Vec::new();
        for n in 1..=3usize {
            v.push(
                Family::new(&format!("all-graphs-{n}"), 11, move |variant, _r, emit| {
                    for e in 0..(1u64 << (n * n)) {
                        if !emit(json!({"kind": "inc", "n": n, "edges": e, "variant": variant})) {
                            return;
                        }
                    }
                })
                .exhaustive(),
            );
        }
        // deep graphs: stacked diamonds, reached along 2^levels paths (work must follow the graph, not the paths)
        v.push(
            Family::new("diamond-ladders", 1, |_c, _r, emit| {
                for levels in [1u64, 2, 3, 5, 8, 13, 21, 34, 55, 89] {
                    for cross in [false, true] {
                        if !emit(json!({"kind": "ladder", "levels": levels, "cross": cross})) {
                            return;
                        }
                    }
                }
            })
            .exhaustive(),
        );
        if ctx.tier == Tier::Thorough {
            v.push(
                Family::new("all-graphs-4", 11 * 16, |chunk, _r, emit| {
                    let variant = chunk / 16;
                    let hi = chunk % 16;
                    for lo in 0..(1u64 << 12) {
                        if !emit(json!({"kind": "inc", "n": 4, "edges": (hi << 12) | lo, "variant": variant})) {
                            return;
                        }
                    }
                })
                .exhaustive(),
            );
            v.push(Family::new("random-5to8", 4000, |_c, rng, emit| {
                for _ in 0..200 {
                    let n = 5 + rng.below(4);
                    // sparse and dense graphs alike
                    let den = 2 + rng.below(8);
                    let mut e = 0u64;
                    for b in 0..n * n {
                        if rng.chance(1, den) {
                            e |= 1 << b;
                        }
                    }
                    if !emit(json!({"kind": "inc", "n": n, "edges": e, "variant": rng.below(11)})) {
                        return;
                    }
                }
            }));
        } else {
            v.push(Family::new("sampled-graphs-4", 12, |_c, rng, emit| {
                for _ in 0..250 {
                    let e = rng.next() & 0xFFFF;
                    if !emit(json!({"kind": "inc", "n": 4, "edges": e, "variant": rng.below(11)})) {
                        return;
                    }
                }
            }));
        }
        v
    }
    fn run_case(&self, _ctx: &Ctx, case: &Case) -> Verdict {
        if case["kind"] == "ladder" {
            let Some(levels) = case["levels"].as_u64() else { return Verdict::Skip("malformed-case") };
            return check_ladder((levels as usize).clamp(1, 200), case["cross"].as_bool() == Some(true));
        }
        let (Some(n), Some(e), Some(v)) = (case["n"].as_u64(), case["edges"].as_u64(), case["variant"].as_u64()) else {
            return Verdict::Skip("malformed-case");
        };
        let n = (n as usize).clamp(1, 8);
        check(n, e & ((1u64 << (n * n).min(63)) - 1) | if n == 8 { e & (1 << 63) } else { 0 }, v % 11)
    }
    fn shrink_keep(&self) -> &'static [&'static str] {
        &["kind", "n", "edges", "variant"]
    }
}
