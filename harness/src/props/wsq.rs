//! Runs the full query set of an editor against a workspace, reporting every range of every
//! result to a visitor (used by C03: totality, C17: range validity).
use ide::analysis::Analysis;
use ide::file_system::FileId;
use ide::handlers::document_symbol::DocumentSymbol;

use crate::fw::{Failure, Rng};
use crate::ws::{frange, interesting_offsets, pos, r2, Workspace};

pub struct SweepStats {
    pub files: usize,
    pub symbols: usize,
    pub answered: usize,
    pub queries: usize,
    pub ranges: usize,
}

pub fn budgets_on(total_len: usize) {
    syntax::verif::reset(400 * (total_len as u64 + 16) + 100_000);
    ide::verif::reset(10_000);
}

pub fn budgets_off() {
    syntax::verif::reset(u64::MAX);
    ide::verif::reset(u64::MAX);
}

fn visit_symbol(sym: &DocumentSymbol, file: FileId, visit: &mut dyn FnMut(&'static str, FileId, usize, usize), n: &mut usize) {
    let (a, z) = r2(sym.range);
    visit("document_symbol", file, a, z);
    *n += 1;
    for c in &sym.children {
        visit_symbol(c, file, visit, n);
    }
}

/// `visit(kind, file, start, end)` is called for every range / position of every result.
pub fn sweep(
    ws: &Workspace,
    a: &Analysis,
    rng: &mut Rng,
    full_limit: usize,
    visit: &mut dyn FnMut(&'static str, FileId, usize, usize),
) -> Result<SweepStats, Failure> {
    let mut st = SweepStats { files: 0, symbols: 0, answered: 0, queries: 0, ranges: 0 };
    let diags = a.diagnostics();
    let mut files: Vec<FileId> = diags.keys().copied().collect();
    files.sort();
    st.files = files.len();
    for (f, ds) in &diags {
        for d in ds {
            let (s, e) = r2(d.location.range);
            visit("diagnostic", d.location.file, s, e);
            st.ranges += 1;
            if d.location.file != *f {
                return Err(Failure::plain("sweep.diag-key", format!("diagnostic for {:?} filed under {:?}", d.location.file, f)));
            }
        }
    }
    // also query files the workspace does not contain (an editor may ask about any open document)
    let mut all_files = files.clone();
    for id in ws.fs.known_ids() {
        if !all_files.contains(&id) {
            all_files.push(id);
        }
    }
    for &file in &all_files {
        let in_ws = files.contains(&file);
        let Some(text) = ws.text_of(file).cloned() else { continue };
        st.queries += 3;
        if let Some(syms) = a.document_symbol(file) {
            st.answered += 1;
            for s in &syms {
                visit_symbol(s, file, visit, &mut st.symbols);
            }
            st.ranges += st.symbols;
        }
        if let Some(fr) = a.folding_range(file) {
            for r in &fr {
                let (s, e) = r2(r.range);
                visit("folding_range", file, s, e);
                st.ranges += 1;
            }
        }
        if let Some(links) = a.document_link(file) {
            for l in &links {
                let (s, e) = r2(l.range);
                visit("document_link", file, s, e);
                visit("document_link.target", l.target, 0, 0);
                st.ranges += 1;
            }
        }
        if !in_ws {
            continue;
        }
        // inlay hints: full range, empty ranges, sub-ranges
        let len = text.len();
        let mut ranges: Vec<(usize, usize)> = vec![(0, len)];
        let offs = interesting_offsets(&text, full_limit);
        for &o in offs.iter().take(300) {
            ranges.push((o, o));
        }
        if len <= 40 {
            let b: Vec<usize> = text.char_indices().map(|(i, _)| i).chain([len]).collect();
            for (i, &s) in b.iter().enumerate() {
                for &e in &b[i..] {
                    ranges.push((s, e));
                }
            }
        } else if !offs.is_empty() {
            for _ in 0..32 {
                let s = offs[rng.below(offs.len())];
                let e = offs[rng.below(offs.len())];
                ranges.push((s.min(e), s.max(e)));
            }
        }
        for (s, e) in ranges {
            st.queries += 1;
            if let Some(h) = a.inlay_hint(frange(file, s, e)) {
                for x in &h {
                    let p = u32::from(x.position) as usize;
                    visit("inlay_hint", file, p, p);
                    st.ranges += 1;
                }
                if !h.is_empty() {
                    st.answered += 1;
                }
            }
        }
        for &o in &offs {
            st.queries += 5;
            if let Some(d) = a.goto_definition(pos(file, o)) {
                let (s, e) = r2(d.range);
                visit("definition", d.file, s, e);
                st.answered += 1;
                st.ranges += 1;
            }
            if let Some(rs) = a.references(pos(file, o)) {
                for r in &rs {
                    let (s, e) = r2(r.range);
                    visit("reference", r.file, s, e);
                    st.ranges += 1;
                }
            }
            if a.hover(pos(file, o)).is_some() {
                st.answered += 1;
            }
            let _ = a.completion(pos(file, o), None);
            let _ = a.completion(pos(file, o), Some("!".to_string()));
        }
    }
    Ok(st)
}
