//! Runs the full query set of an editor against a workspace, reporting every range of every
//! result to a visitor (used by C03: totality, C17: range validity).
use ide::analysis::Analysis;
use ide::file_system::FileId;
use ide::handlers::document_symbol::DocumentSymbol;

use crate::fw::{Failure, Rng};
use crate::ws::{frange, interesting_offsets, pos, r2, Workspace};

pub struct SweepStats {
    pub files: usize,
    pub symbols: usize,
    pub answered: usize,
    pub queries: usize,
    pub ranges: usize,
}

pub fn budgets_on(total_len: usize) {
    syntax::verif::reset(400 * (total_len as u64 + 16) + 100_000);
    ide::verif::reset(10_000);
    // records visited by field lookups and subclass tests: linear in the text for every generator of
    // the harness (a lookup visits each ancestor once); a walk that follows every *path* of a class
    // lattice is exponential in its depth
    ide::verif::reset_walks(1_000_000 + 4_000 * total_len as u64);
}

pub fn budgets_off() {
    syntax::verif::reset(u64::MAX);
    ide::verif::reset(u64::MAX);
    ide::verif::reset_walks(u64::MAX);
}

fn visit_symbol(sym: &DocumentSymbol, file: FileId, visit: &mut dyn FnMut(&'static str, FileId, usize, usize), n: &mut usize) {
    let (a, z) = r2(sym.range);
    visit("document_symbol", file, a, z);
    *n += 1;
    for c in &sym.children {
        visit_symbol(c, file, visit, n);
    }
}

/// `visit(kind, file, start, end)` is called for every range / position of every result.
pub fn sweep(
    ws: &Workspace,
    a: &Analysis,
    rng: &mut Rng,
    full_limit: usize,
    visit: &mut dyn FnMut(&'static str, FileId, usize, usize),
) -> Result<SweepStats, Failure> {
    let mut st = SweepStats { files: 0, symbols: 0, answered: 0, queries: 0, ranges: 0 };
    let diags = a.diagnostics();
    let mut files: Vec<FileId> = diags.keys().copied().collect();
    files.sort();
    st.files = files.len();
    for (f, ds) in &diags {
        for d in ds {
            let (s, e) = r2(d.location.range);
            visit("diagnostic", d.location.file, s, e);
            st.ranges += 1;
            if d.location.file != *f {
                return Err(Failure::plain("sweep.diag-key", format!("diagnostic for {:?} filed under {:?}", d.location.file, f)));
            }
        }
    }
    // also query files the workspace does not contain (an editor may ask about any open document)
    let mut all_files = files.clone();
    for id in ws.fs.known_ids() {
        if !all_files.contains(&id) {
            all_files.push(id);
        }
    }
    for &file in &all_files {
        let in_ws = files.contains(&file);
        let Some(text) = ws.text_of(file).cloned() else { continue };
        st.queries += 3;
        if let Some(syms) = a.document_symbol(file) {
            st.answered += 1;
            for s in &syms {
                visit_symbol(s, file, visit, &mut st.symbols);
            }
            st.ranges += st.symbols;
        }
        if let Some(fr) = a.folding_range(file) {
            for r in &fr {
                let (s, e) = r2(r.range);
                visit("folding_range", file, s, e);
                st.ranges += 1;
            }
        }
        if let Some(links) = a.document_link(file) {
            for l in &links {
                let (s, e) = r2(l.range);
                visit("document_link", file, s, e);
                visit("document_link.target", l.target, 0, 0);
                st.ranges += 1;
            }
        }
        if !in_ws {
            continue;
        }
        // inlay hints: full range, empty ranges, sub-ranges
        let len = text.len();
        let mut ranges: Vec<(usize, usize)> = vec![(0, len)];
        let offs = interesting_offsets(&text, full_limit);
        for &o in offs.iter().take(300) {
            ranges.push((o, o));
        }
        if len <= 40 {
            let b: Vec<usize> = text.char_indices().map(|(i, _)| i).chain([len]).collect();
            for (i, &s) in b.iter().enumerate() {
                for &e in &b[i..] {
                    ranges.push((s, e));
                }
            }
        } else if !offs.is_empty() {
            for _ in 0..32 {
                let s = offs[rng.below(offs.len())];
                let e = offs[rng.below(offs.len())];
                ranges.push((s.min(e), s.max(e)));
            }
        }
        for (s, e) in ranges {
            st.queries += 1;
            if let Some(h) = a.inlay_hint(frange(file, s, e)) {
                for x in &h {
                    let p = u32::from(x.position) as usize;
                    visit("inlay_hint", file, p, p);
                    st.ranges += 1;
                }
                if !h.is_empty() {
                    st.answered += 1;
                }
            }
        }
        for &o in &offs {
            st.queries += 5;
            if let Some(d) = a.goto_definition(pos(file, o)) {
                let (s, e) = r2(d.range);
                visit("definition", d.file, s, e);
                st.answered += 1;
                st.ranges += 1;
            }
            if let Some(rs) = a.references(pos(file, o)) {
                for r in &rs {
                    let (s, e) = r2(r.range);
                    visit("reference", r.file, s, e);
                    st.ranges += 1;
                }
            }
            if a.hover(pos(file, o)).is_some() {
                st.answered += 1;
            }
            let _ = a.completion(pos(file, o), None);
            let _ = a.completion(pos(file, o), Some("!".to_string()));
        }
    }
    Ok(st)
}

// ---------------------------------------------------------------------------------------
// normalised dump of "everything an editor can see" (C07: differential; C11/C12: expectations)

use serde_json::{json, Value};

fn sym_json(s: &DocumentSymbol) -> Value {
    json!({
        "name": s.name.to_string(),
        "typ": s.typ.to_string(),
        "kind": format!("{:?}", s.kind),
        "range": [r2(s.range).0, r2(s.range).1],
        "children": s.children.iter().map(sym_json).collect::<Vec<_>>(),
    })
}

fn sorted(mut v: Vec<Value>) -> Value {
    v.sort_by_key(|x| x.to_string());
    Value::Array(v)
}

pub fn dump(ws: &Workspace, a: &Analysis) -> Value {
    let mut out = serde_json::Map::new();
    let diags = a.diagnostics();
    let mut files: Vec<FileId> = diags.keys().copied().collect();
    files.sort_by_key(|f| ws.fs.path_of(*f));
    let path = |f: FileId| ws.fs.path_of(f).unwrap_or_else(|| format!("{f:?}"));
    out.insert("root".into(), json!(path(ws.root)));
    for f in files {
        let mut fo = serde_json::Map::new();
        let ds = diags.get(&f).cloned().unwrap_or_default();
        fo.insert(
            "diagnostics".into(),
            sorted(ds.iter().map(|d| json!([path(d.location.file), r2(d.location.range).0, r2(d.location.range).1, d.message])).collect()),
        );
        fo.insert("symbols".into(), json!(a.document_symbol(f).map(|v| v.iter().map(sym_json).collect::<Vec<_>>())));
        fo.insert(
            "folding".into(),
            json!(a.folding_range(f).map(|v| v.iter().map(|r| json!([r2(r.range).0, r2(r.range).1])).collect::<Vec<_>>())),
        );
        fo.insert(
            "links".into(),
            json!(a.document_link(f).map(|v| v.iter().map(|l| json!([r2(l.range).0, r2(l.range).1, path(l.target)])).collect::<Vec<_>>())),
        );
        if let Some(text) = ws.text_of(f) {
            if !text.is_empty() {
                fo.insert(
                    "hints".into(),
                    json!(a.inlay_hint(frange(f, 0, text.len())).map(|v| sorted(
                        v.iter().map(|h| json!([u32::from(h.position), h.label, format!("{:?}", h.kind)])).collect()
                    ))),
                );
            }
            let mut at = serde_json::Map::new();
            for (s, _e) in crate::ws::id_tokens_by_parse(text).into_iter().take(400) {
                let p = pos(f, s);
                let d = a.goto_definition(p).map(|d| json!([path(d.file), r2(d.range).0, r2(d.range).1]));
                let r = a.references(p).map(|v| sorted(v.iter().map(|r| json!([path(r.file), r2(r.range).0, r2(r.range).1])).collect()));
                let h = a.hover(p).map(|h| json!([h.signature, h.document]));
                at.insert(format!("{s:06}"), json!({"def": d, "refs": r, "hover": h}));
            }
            fo.insert("at".into(), Value::Object(at));
            let mut comp = serde_json::Map::new();
            let offs = interesting_offsets(text, 0);
            let stride = (offs.len() / 8).max(1);
            for o in offs.iter().step_by(stride).take(9) {
                for trig in [None, Some("!".to_string())] {
                    let c = a.completion(pos(f, *o), trig.clone()).map(|v| {
                        sorted(v.iter().map(|c| json!([c.label, c.insert_text_snippet, format!("{:?}", c.kind)])).collect())
                    });
                    comp.insert(format!("{o:06}{}", if trig.is_some() { "!" } else { "" }), json!(c));
                }
            }
            fo.insert("completion".into(), Value::Object(comp));
        }
        out.insert(path(f), Value::Object(fo));
    }
    Value::Object(out)
}

/// first path at which two JSON values differ
pub fn first_diff(a: &Value, b: &Value, path: &mut String) -> Option<String> {
    match (a, b) {
        (Value::Object(x), Value::Object(y)) => {
            let keys: std::collections::BTreeSet<&String> = x.keys().chain(y.keys()).collect();
            for k in keys {
                match (x.get(k), y.get(k)) {
                    (Some(u), Some(v)) => {
                        let l = path.len();
                        path.push('/');
                        path.push_str(k);
                        if let Some(d) = first_diff(u, v, path) {
                            return Some(d);
                        }
                        path.truncate(l);
                    }
                    (u, v) => return Some(format!("{path}/{k}: {} vs {}", u.map(|x| x.to_string()).unwrap_or("<absent>".into()), v.map(|x| x.to_string()).unwrap_or("<absent>".into()))),
                }
            }
            None
        }
        (Value::Array(x), Value::Array(y)) if x.len() == y.len() => {
            for (i, (u, v)) in x.iter().zip(y).enumerate() {
                let l = path.len();
                path.push_str(&format!("[{i}]"));
                if let Some(d) = first_diff(u, v, path) {
                    return Some(d);
                }
                path.truncate(l);
            }
            None
        }
        _ if a == b => None,
        _ => {
            let t = |v: &Value| v.to_string().chars().take(300).collect::<String>();
            Some(format!("{path}: {} vs {}", t(a), t(b)))
        }
    }
}
