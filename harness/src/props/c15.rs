//! C15 — preprocessor: conditional regions select exactly the enabled tokens.
use rowan::NodeOrToken;
use serde_json::json;

use crate::fw::*;
use crate::refm::pp::{self, Item, Shape};

pub struct C15;

const NITEMS: usize = 9;

fn item_of(code: usize, marker_no: &mut usize) -> Item {
    match code {
        0 => Item::Define("A".into()),
        1 => Item::Define("B".into()),
        2 => Item::Ifdef("A".into()),
        3 => Item::Ifdef("B".into()),
        4 => Item::Ifndef("A".into()),
        5 => Item::Ifndef("B".into()),
        6 => Item::Else,
        7 => Item::Endif,
        _ => {
            let m = Item::Marker(*marker_no);
            *marker_no += 1;
            m
        }
    }
}

/// what may stand between the beginning of a line and the `#` of a directive: whitespace and block
/// comments (also several, also spanning lines, also with directive look-alikes inside)
const LEAD: [&str; 8] = ["", "  ", "\t", "/* c */ ", "/* a */ /* b */ ", "/* x\n   y */ ", "/* l1 */\n/* l2 */ #dummy\n  /* l3 */\t", "/* no\n#endif\n#else\n*/ /* second */ "];

fn lead_text(k: usize, n: usize) -> &'static str {
    let l = LEAD[(k * 7 + n) % LEAD.len()];
    // (a `#dummy` line is not a directive but would be an error in enabled text: left out)
    if l.contains("#dummy") {
        "/* l1 */\n/* l2 */\n  /* l3 */\t"
    } else {
        l
    }
}

fn render(items: &[Item], nl: &str) -> String {
    render_led(items, nl, false)
}

fn render_led(items: &[Item], nl: &str, lead: bool) -> String {
    let mut s = String::new();
    for (k, it) in items.iter().enumerate() {
        if lead && !matches!(it, Item::Marker(_)) {
            s.push_str(lead_text(k, items.len()));
        }
        // between a directive and its macro name: white space (one or several blanks and tabs)
        // (a tab right behind the directive word as well), and blanks or tabs behind the last word of the line
        let sp = if lead { [" ", " \t  ", "\t", "  ", "\t\t "][(k + items.len()) % 5] } else { " " };
        let tr = if lead { ["", "\t", " ", "", " \t"][(k * 3 + items.len()) % 5] } else { "" };
        match it {
            Item::Define(m) => s.push_str(&format!("#define{sp}{m}{tr}")),
            Item::Ifdef(m) => s.push_str(&format!("#ifdef{sp}{m}{tr}")),
            Item::Ifndef(m) => s.push_str(&format!("#ifndef{sp}{m}{tr}")),
            Item::Else => s.push_str(&format!("#else{tr}")),
            Item::Endif => s.push_str(&format!("#endif{tr}")),
            Item::Marker(i) => s.push_str(&format!("def m{i};")),
        }
        s.push_str(nl);
    }
    s
}

fn codes_to_items(codes: &[usize]) -> Vec<Item> {
    let mut m = 0;
    codes.iter().map(|&c| item_of(c, &mut m)).collect()
}

fn nontrivia_tokens(text: &str) -> (Vec<String>, usize) {
    let parse = syntax::parse(text);
    let toks = parse
        .syntax_node()
        .descendants_with_tokens()
        .filter_map(|e| match e {
            NodeOrToken::Token(t) if !t.kind().is_trivia() && !t.text().is_empty() => Some(t.text().to_string()),
            _ => None,
        })
        .collect();
    (toks, parse.errors().len())
}

fn check(items: &[Item], text: &str) -> Verdict {
    let ev = pp::eval(items);
    let (toks, nerr) = nontrivia_tokens(text);
    let show = || text.replace('\n', "⏎").chars().take(160).collect::<String>();
    match ev.shape {
        Shape::WellNested => {
            let mut expect: Vec<String> = Vec::new();
            for i in &ev.selected {
                expect.extend(["def".to_string(), format!("m{i}"), ";".to_string()]);
            }
            if toks != expect {
                return Verdict::Fail(Failure::plain("C15.selection", format!("{}: delivered tokens {toks:?}, reference selects markers {:?}", show(), ev.selected)));
            }
            if nerr != 0 {
                return Verdict::Fail(Failure::plain("C15.spurious-error", format!("{}: {nerr} syntax errors on a well-nested input", show())));
            }
            Verdict::Pass { nontrivial: ev.max_depth >= 2 || ev.else_in_disabled, labels: vec!["well-nested"] }
        }
        Shape::Unterminated => {
            if nerr == 0 {
                let sig = "C15.unterminated-not-reported";
                return Verdict::Fail(Failure::new("C15.unterminated", sig, format!("{}: conditional left open at end of file, no error reported", show())));
            }
            Verdict::Pass { nontrivial: ev.max_depth >= 2 || ev.else_in_disabled, labels: vec!["unterminated"] }
        }
        Shape::Stray => Verdict::Pass { nontrivial: false, labels: vec!["stray (only C01/C02 oracles apply)"] },
    }
}

/// lines of text that is not TableGen; only ever placed in disabled regions. None starts with `#`
/// or with a block comment (those take part in directive recognition at the beginning of a line).
const JUNK: [&str; 12] = [
    "\"abc",
    "\"abc\\",
    "[{ open",
    "x /* open",
    "}] */",
    "def j : NoSuch { int x = ; }",
    "!bogus $ @ \u{e9} ..",
    "def a; #endif",
    "x #else",
    "string s = \"#endif",
    "include \"nowhere.td\"",
    "code c = [{ #ifdef A",
];

/// items with junk lines: `junk` = [(position in items, junk id)]; a junk line that the reference
/// evaluation finds in an enabled region is dropped (it would rightly produce tokens and errors)
fn check_with_junk(items: &[Item], junk: &[(usize, usize)], nl: &str, lead: bool) -> Verdict {
    // probe: a pseudo marker at each junk position tells whether that position is enabled
    let mut probe: Vec<Item> = Vec::new();
    for (i, it) in items.iter().enumerate() {
        for (k, (pos, _)) in junk.iter().enumerate() {
            if *pos == i {
                probe.push(Item::Marker(100_000 + k));
            }
        }
        probe.push(it.clone());
    }
    let ev = pp::eval(&probe);
    if ev.shape != Shape::WellNested {
        return Verdict::Pass { nontrivial: false, labels: vec!["junk: not well nested (not asserted)"] };
    }
    let mut text = String::new();
    let mut placed = 0;
    for (i, it) in items.iter().enumerate() {
        for (k, (pos, j)) in junk.iter().enumerate() {
            if *pos == i && !ev.selected.contains(&(100_000 + k)) {
                text.push_str(JUNK[*j % JUNK.len()]);
                text.push_str(nl);
                placed += 1;
            }
        }
        if lead && !matches!(it, Item::Marker(_)) {
            text.push_str(lead_text(i, items.len()));
        }
        text.push_str(&render(std::slice::from_ref(it), nl));
    }
    match check(items, &text) {
        Verdict::Pass { .. } => Verdict::Pass { nontrivial: placed > 0, labels: vec!["junk-in-disabled"] },
        Verdict::Fail(mut f) => {
            // which kind of junk line is involved: the first one placed
            let first = junk.iter().enumerate().find(|(k, (_, _))| !ev.selected.contains(&(100_000 + k))).map(|(_, (_, j))| JUNK[*j % JUNK.len()]).unwrap_or("");
            f.sig = format!("{}:junk:{}", f.sig, first.split_whitespace().next().unwrap_or(""));
            Verdict::Fail(f)
        }
        v => v,
    }
}

fn enumerate(len: usize, first: usize, emit: Emit) {
    let mut idx = vec![0usize; len];
    idx[0] = first;
    loop {
        if !emit(json!({"kind": "pp", "codes": idx})) {
            return;
        }
        let mut k = len;
        loop {
            if k == 1 {
                return;
            }
            k -= 1;
            if idx[k] + 1 < NITEMS {
                idx[k] += 1;
                break;
            }
            idx[k] = 0;
        }
    }
}

fn random_nested(rng: &mut Rng, depth: usize, items: &mut Vec<usize>) {
    let k = 1 + rng.below(4);
    for _ in 0..k {
        match rng.below(if depth >= 6 { 3 } else { 6 }) {
            0 => items.push(rng.below(2)),
            1 | 2 => items.push(8),
            _ => {
                items.push(2 + rng.below(4));
                random_nested(rng, depth + 1, items);
                if rng.chance(1, 2) {
                    items.push(6);
                    random_nested(rng, depth + 1, items);
                }
                items.push(7);
            }
        }
    }
}

impl Property for C15 {
    fn id(&self) -> &'static str {
        "C15"
    }
    fn rule(&self) -> String {
        "exhaustive: every sequence of length <=6 (thorough <=8) over {#define A, #define B, #ifdef A, #ifdef B, #ifndef A, #ifndef B, #else, #endif, marker `def m<i>;`}, one item per line; directives without a macro name (9 forms); random well-nested arrangements to depth 6 with LF/CRLF, trailing comments (after a blank, or glued to the directive word: `#endif// x`, `#else/* x */`), and whitespace / one or several block comments (also spanning lines, also containing directive look-alikes) in front of the directives; the same with 1..4 lines of text that is not TableGen placed in disabled regions (unterminated string / string ending in a backslash / code fragment / block comment opened mid-line, stray closers, mid-line directives, faulty declarations; never starting with '#' or '/*'). RefPP classifies: well nested => delivered non-trivia tokens == selected markers and zero errors; unterminated at EOF / nameless directive => >=1 error; stray #else/#endif => not asserted. distinct = digest; non-trivial = nesting depth >= 2 or an #else inside a disabled region".into()
    }
    fn assumptions(&self) -> Vec<String> {
        vec!["RefPP written from the Programmer's Reference: a macro is defined only by an enabled #define; no macro is predefined".into()]
    }
    fn families(&self, ctx: &Ctx) -> Vec<Family> {
        let maxlen = ctx.tier.pick(6usize, 8usize);
        let mut v: Vec<Family> = Vec::new();
        for len in 1..=maxlen {
            v.push(Family::new(&format!("seq-len{len}"), NITEMS as u64, move |c, _r, emit| enumerate(len, c as usize, emit)).exhaustive());
        }
        v.push(
            Family::new("nameless-directive", 1, |_c, _r, emit| {
                for d in ["#ifdef", "#ifndef", "#define"] {
                    for tail in ["", "\n", " 1\n", " \"s\"\n", " // c\n", " ;\n"] {
                        if !emit(json!({"kind": "pp-nameless", "text": format!("{d}{tail}def m0;\n")})) {
                            return;
                        }
                    }
                }
            })
            .exhaustive(),
        );
        v.push(Family::new("embedded-in-programs", ctx.tier.pick(200, 6000), |_c, rng, emit| {
            for _ in 0..50 {
                if !emit(json!({"kind": "sem-pp", "seed": rng.next() >> 16, "n": 2 + rng.below(7), "opts": "clean"})) {
                    return;
                }
            }
        }));
        // text that is not TableGen inside disabled regions (unterminated strings / comments / code
        // fragments, mid-line directives): a disabled region is skipped line by line
        v.push(Family::new("junk-in-disabled", ctx.tier.pick(60, 3000), |_c, rng, emit| {
            for _ in 0..250 {
                let mut codes = Vec::new();
                // start inside a conditional more often than not
                if rng.chance(2, 3) {
                    codes.push(2 + rng.below(4));
                    random_nested(rng, 1, &mut codes);
                    if rng.chance(1, 2) {
                        codes.push(6);
                        random_nested(rng, 1, &mut codes);
                    }
                    codes.push(7);
                } else {
                    random_nested(rng, 0, &mut codes);
                }
                let n = 1 + rng.below(4);
                let junk: Vec<_> = (0..n).map(|_| json!([rng.below(codes.len() + 1), rng.below(JUNK.len())])).collect();
                if !emit(json!({"kind": "pp-junk", "codes": codes, "junk": junk, "style": rng.below(3)})) {
                    return;
                }
            }
        }));
        v.push(Family::new("random-deep", ctx.tier.pick(40, 4000), |_c, rng, emit| {
            for _ in 0..250 {
                let mut codes = Vec::new();
                random_nested(rng, 0, &mut codes);
                let style = rng.below(8);
                if !emit(json!({"kind": "pp", "codes": codes, "style": style})) {
                    return;
                }
            }
        }));
        v
    }
    fn run_case(&self, _ctx: &Ctx, case: &Case) -> Verdict {
        match case["kind"].as_str() {
            Some("pp") => {
                let Some(codes) = case["codes"].as_array() else { return Verdict::Skip("malformed-case") };
                let codes: Vec<usize> = codes.iter().filter_map(|c| c.as_u64()).map(|c| c as usize % NITEMS).collect();
                let items = codes_to_items(&codes);
                let nl = match case["style"].as_u64() {
                    Some(1) => "\r\n",
                    Some(2) => " // trailing comment\n",
                    // a comment glued to the directive word / the macro name / the marker
                    Some(4) => "// glued\n",
                    Some(5) => "/* glued */\n",
                    // a line comment that mentions comment delimiters: nothing opens or closes inside it
                    Some(6) => " // see /* below\n",
                    Some(7) => "// */ closes nothing, /* opens nothing\n",
                    _ => "\n",
                };
                // style 3: whitespace and block comments in front of the directives
                check(&items, &render_led(&items, nl, case["style"].as_u64() == Some(3)))
            }
            Some("pp-junk") => {
                let (Some(codes), Some(junk)) = (case["codes"].as_array(), case["junk"].as_array()) else { return Verdict::Skip("malformed-case") };
                let codes: Vec<usize> = codes.iter().filter_map(|c| c.as_u64()).map(|c| c as usize % NITEMS).collect();
                let items = codes_to_items(&codes);
                let junk: Vec<(usize, usize)> = junk.iter().filter_map(|j| Some((j[0].as_u64()? as usize, j[1].as_u64()? as usize))).collect();
                check_with_junk(&items, &junk, if case["style"].as_u64() == Some(1) { "\r\n" } else { "\n" }, case["style"].as_u64() == Some(2))
            }
            Some("sem-pp") => embedded(case),
            Some("pp-nameless") => {
                let Some(text) = case["text"].as_str() else { return Verdict::Skip("malformed-case") };
                let (_, nerr) = nontrivia_tokens(text);
                if nerr == 0 {
                    return Verdict::Fail(Failure::plain("C15.nameless-not-reported", format!("{text:?}: directive without macro name, no error")));
                }
                Verdict::pass(true)
            }
            _ => Verdict::Skip("malformed-case"),
        }
    }
}

/// conditional regions between the top-level statements of a well-formed program: disabled text
/// (declarations with semantic and syntactic faults) must produce neither outline entries nor
/// diagnostics, enabled text must be analysed as if the directives were not there
fn embedded(case: &Case) -> Verdict {
    let Some(p) = super::semcase::program_of(case) else { return Verdict::Skip("malformed-case") };
    let mut rng = Rng::new(digest(case) ^ 0x15);
    const STARTS: [&str; 11] = ["class ", "def ", "defvar ", "foreach ", "if ", "let ", "defset ", "multiclass ", "defm ", "assert ", "dump "];
    let root = &p.files[0].1;
    let mut out = String::new();
    let mut enabled: Vec<String> = Vec::new();
    let mut k = 0;
    let mut prev_is_comment = false;
    let mut prev_complete = true;
    let mut regions = 0;
    for line in root.split_inclusive('\n') {
        let at_top = STARTS.iter().any(|s| line.starts_with(s));
        if at_top && !prev_is_comment && prev_complete && rng.chance(1, 3) {
            k += 1;
            regions += 1;
            let mut reg = String::new();
            match rng.below(5) {
                0 => reg.push_str(&format!("#ifdef UNDEF_{k}\ndef DISABLED_{k} : NoSuchClass {{ int x = ; }}\nclass DISABLED_C{k} : ;\n#endif\n")),
                1 => {
                    reg.push_str(&format!("#ifdef UNDEF_{k}\ndef DISABLED_{k} : NoSuchClass;\n#else\ndef ENABLED_{k};\n#endif\n"));
                    enabled.push(format!("ENABLED_{k}"));
                }
                2 => {
                    reg.push_str(&format!("#define DEF_{k}\n#ifdef DEF_{k}\ndef ENABLED_{k};\n#else\ndef DISABLED_{k} = ;\n#endif\n"));
                    enabled.push(format!("ENABLED_{k}"));
                }
                // a conditional with both branches nested in a disabled region, declarations behind the inner
                // #else and behind the inner #endif; the outer conditional has a branch of its own
                3 => {
                    reg.push_str(&format!("#ifdef UNDEF_{k}\n#ifdef X\ndef DISABLED_{k}a;\n#else\ndef DISABLED_{k}b;\nclass DISABLED_C{k} {{ int x = 1; }}\n#endif\ndef DISABLED_{k}c;\n#else\ndef ENABLED_{k};\n#endif\n"));
                    enabled.push(format!("ENABLED_{k}"));
                }
                _ => {
                    reg.push_str(&format!("#ifndef UNDEF_{k}\n#ifdef UNDEF_{k}\ninclude \"nowhere.td\"\n#else\ndef ENABLED_{k};\n#endif\n#else\n#ifndef X\ndef DISABLED_{k};\n#endif\n#endif\n"));
                    enabled.push(format!("ENABLED_{k}"));
                }
            }
            // a line comment behind the directives, with comment delimiters in it
            if rng.chance(1, 4) {
                reg = reg.replace("\n#else\n", "\n#else // the /* other branch\n").replace("\n#endif\n", "\n#endif // */ done /*\n");
                if let Some(p) = reg.find('\n') {
                    reg.insert_str(p, " // see /* below");
                }
            }
            // a tab where a blank may stand: behind the directive word, and at the end of a directive line
            if rng.chance(1, 3) {
                reg = reg.replace("#ifdef ", "#ifdef\t").replace("#ifndef ", "#ifndef \t").replace("#define ", "#define\t\t").replace("#else\n", "#else\t\n").replace("#endif\n", "#endif \t\n");
            }
            out.push_str(&reg);
        }
        out.push_str(line);
        let t = line.trim_start();
        prev_is_comment = t.starts_with("//") || t.starts_with("/*");
        let e = line.trim();
        // a statement boundary: the last significant line (not blank, not a comment) closed a statement
        if !(e.is_empty() || prev_is_comment) {
            prev_complete = e.ends_with('}') || e.ends_with(';') || e.starts_with("include ");
        }
    }
    let mut files = p.files.clone();
    files[0].1 = out.clone();
    let base = crate::ws::Workspace::new(&p.files, &p.files[0].0);
    let ws = crate::ws::Workspace::new(&files, &files[0].0);
    let a = ws.analysis();
    let diags: Vec<String> = a.diagnostics().values().flatten().map(|d| format!("{:?} {}", crate::ws::r2(d.location.range), d.message)).collect();
    if !diags.is_empty() {
        return Verdict::Fail(Failure::plain("C15.diagnostic-from-disabled-text", format!("diagnostics {diags:?} for\n{out}")));
    }
    let names = |w: &crate::ws::Workspace| -> Vec<String> { w.analysis().document_symbol(w.root).unwrap_or_default().iter().map(|s| s.name.to_string()).collect() };
    let got = names(&ws);
    let want_base = names(&base);
    if got.iter().any(|n| n.starts_with("DISABLED")) {
        return Verdict::Fail(Failure::plain("C15.declaration-from-disabled-text", format!("outline {got:?} lists a declaration of a disabled region\n{out}")));
    }
    let mut got_enabled: Vec<String> = got.iter().filter(|n| n.starts_with("ENABLED")).cloned().collect();
    let rest: Vec<String> = got.iter().filter(|n| !n.starts_with("ENABLED")).cloned().collect();
    got_enabled.sort();
    let mut want_enabled = enabled.clone();
    want_enabled.sort();
    if got_enabled != want_enabled || rest != want_base {
        return Verdict::Fail(Failure::plain("C15.enabled-text-not-analysed", format!("outline {got:?}; expected the enabled markers {enabled:?} and the program's own {want_base:?}\n{out}")));
    }
    Verdict::Pass { nontrivial: regions >= 2, labels: vec!["embedded"] }
}
