//! C19 — hover and inlay hints describe the declaration they point at.
use std::collections::BTreeSet;

use ide::file_system::FileId;

use super::semcase::{program_of, sem_case, show, workspace_of};
use crate::fw::*;
use crate::gen::sem::{DeclKind, Role};
use crate::ws::{abs, frange, pos};

pub struct C19;

impl Property for C19 {
    fn id(&self) -> &'static str {
        "C19"
    }
    fn rule(&self) -> String {
        "SEM programs with declared types, doc comments (0..2 `//` lines directly above; detached by a blank line; a block comment above; indented in bodies) and class references with 0..3 positional arguments, x every identifier occurrence x request ranges {whole file, every statement, every class-reference name, 16 random}. Hover: on every use = hover on its declaration (except fields overridden by let); on the name of a field override: the field's name and declared type, documented by the // lines above the declaration it points at (the let itself when it introduces the field in that record, else the field declaration); signature contains the name and the declared type (fields, template arguments, variables, defsets) or the kind keyword (class, def, multiclass, defm); document = exactly the adjacent // lines or None. Hints over the whole file: exactly one per positional argument (at its first byte, label contains the parameter name) and one per field override (right after the field name, label contains the field's declared type); for a sub-range: a subset of those, all positioned inside the range. Hints of multiclass references are not asserted. distinct = (seed, n); non-trivial = >=1 doc comment, >=1 positional argument hint and >=1 override hint".into()
    }
    fn families(&self, ctx: &Ctx) -> Vec<Family> {
        vec![Family::new("sem-programs", ctx.tier.pick(500, 80000), |_c, rng, emit| {
            for _ in 0..50 {
                if !emit(sem_case(rng, false)) {
                    return;
                }
            }
        })]
    }
    fn run_case(&self, _ctx: &Ctx, case: &Case) -> Verdict {
        if case["kind"] == "manual" {
            return super::semcase::manual(case, "C19");
        }
        let Some(p) = program_of(case) else { return Verdict::Skip("malformed-case") };
        let ws = workspace_of(&p);
        let a = ws.analysis();
        let fid = |i: usize| -> Option<FileId> { ws.fs.id_of(&abs(&p.files[i].0)) };
        let fail = |oracle: &str, sig: String, detail: String| Verdict::Fail(Failure::new(oracle, sig, format!("{detail}\n{}", show(&p))));
        let mut docs = 0;
        // ---- hover
        for occ in &p.occs {
            let (d, is_decl) = match &occ.role {
                Role::Decl(d) => (*d, true),
                Role::Use(d) => (*d, false),
                _ => continue,
            };
            let dd = &p.decls[d];
            if dd.kind == DeclKind::Field && dd.overridden && !is_decl {
                // the use may point at the declaration or at an override further up: whichever it is,
                // the documentation shown is the one of the declaration go-to-definition points at
                if let (Some(f), Some(h)) = (fid(occ.file), fid(occ.file).and_then(|f| a.hover(pos(f, occ.range.0)))) {
                    if let Some(t) = a.goto_definition(pos(f, occ.range.0)) {
                        let tr = crate::ws::r2(t.range);
                        let want = p
                            .lets
                            .iter()
                            .find(|l| fid(l.file) == Some(t.file) && l.name_range == tr)
                            .map(|l| l.doc.clone())
                            .or_else(|| p.decls.iter().find(|x| fid(x.file) == Some(t.file) && x.range == tr).map(|x| x.doc.clone()));
                        if let Some(want) = want {
                            if h.document != want {
                                return fail("C19.hover-doc", "C19.hover-doc:overridden-field-use".into(), format!("{}:{:?} {:?}: document {:?}, but the declaration it points at ({tr:?}) is documented {want:?}", p.files[occ.file].0, occ.range, dd.name, h.document));
                            }
                        }
                    }
                }
                continue;
            }
            let (Some(f), Some(df)) = (fid(occ.file), fid(dd.file)) else { continue };
            let here = format!("{}:{:?} {:?}", p.files[occ.file].0, occ.range, dd.name);
            let Some(h) = a.hover(pos(f, occ.range.0)) else {
                return fail("C19.hover-missing", format!("C19.hover-missing:{:?}", dd.kind), format!("no hover on {here} ({:?})", dd.kind));
            };
            if is_decl {
                if !h.signature.contains(&dd.name) {
                    return fail("C19.hover-signature", format!("C19.hover-signature:{:?}", dd.kind), format!("{here}: signature {:?} does not contain the name", h.signature));
                }
                let need = match dd.kind {
                    DeclKind::Class => Some("class".to_string()),
                    DeclKind::Def => Some("def".to_string()),
                    DeclKind::Multiclass => Some("multiclass".to_string()),
                    DeclKind::Defm => Some("defm".to_string()),
                    _ => dd.ty.as_ref().map(|t| t.render()),
                };
                if let Some(n) = need {
                    if !h.signature.contains(&n) {
                        return fail("C19.hover-signature", format!("C19.hover-signature:{:?}", dd.kind), format!("{here}: signature {:?} does not contain {n:?}", h.signature));
                    }
                }
                if h.document != dd.doc {
                    return fail("C19.hover-doc", format!("C19.hover-doc:{:?}", dd.kind), format!("{here}: document {:?}, expected {:?}", h.document, dd.doc));
                }
                if dd.doc.is_some() {
                    docs += 1;
                }
            } else {
                let hd = a.hover(pos(df, dd.range.0));
                let same = hd.as_ref().map(|x| x.signature == h.signature && x.document == h.document).unwrap_or(false);
                if !same {
                    return fail("C19.hover-use-differs", format!("C19.hover-use-differs:{:?}", dd.kind), format!("{here}: hover on the use {:?}/{:?} differs from hover on its declaration {:?}", h.signature, h.document, hd.map(|x| (x.signature, x.document))));
                }
            }
        }
        // ---- hints
        let mut npos = 0;
        let mut nlet = 0;
        for (fi, (fname, text)) in p.files.iter().enumerate() {
            let Some(f) = fid(fi) else { continue };
            if text.is_empty() {
                continue;
            }
            let mut want: BTreeSet<(usize, String)> = BTreeSet::new();
            // (hints inside the argument list of a multiclass reference are not asserted, also not those
            // of a class value nested in it)
            let mc_spans0: Vec<(usize, usize)> = p.classrefs.iter().filter(|r| r.file == fi && r.is_multiclass).filter_map(|r| r.args_range).collect();
            for r in p.classrefs.iter().filter(|r| r.file == fi && !r.is_multiclass) {
                for (at, name) in &r.positional {
                    if mc_spans0.iter().any(|s| s.0 <= *at && *at <= s.1) {
                        continue;
                    }
                    want.insert((*at, name.clone()));
                    npos += 1;
                }
            }
            for l in p.lets.iter().filter(|l| l.file == fi) {
                want.insert((l.name_range.1, l.field_ty.render()));
                nlet += 1;
                // hover on the overriding name: the field with its declared type, documented by the
                // comment above the `let` (not by the one above the enclosing record)
                let at = (l.name_range.0 + l.name_range.1) / 2;
                match a.hover(pos(f, at)) {
                    None => return fail("C19.hover-missing", "C19.hover-missing:FieldLet".into(), format!("{fname}:{at}: no hover on the name of a field override")),
                    Some(h) => {
                        if !h.signature.contains(&l.field_name) || !h.signature.contains(&l.field_ty.render()) {
                            return fail("C19.hover-signature", "C19.hover-signature:FieldLet".into(), format!("{fname}:{at}: signature {:?} of a field override does not contain {:?} and {:?}", h.signature, l.field_name, l.field_ty.render()));
                        }
                        // the declaration the override name points at is either the override itself (it
                        // introduces the field in this record) or the field declaration of the same record
                        let target = a.goto_definition(pos(f, at)).map(|t| (t.file, crate::ws::r2(t.range)));
                        let want_doc = match target {
                            Some((tf, tr)) => p
                                .lets
                                .iter()
                                .find(|x| fid(x.file) == Some(tf) && x.name_range == tr)
                                .map(|x| x.doc.clone())
                                .or_else(|| p.decls.iter().find(|d| fid(d.file) == Some(tf) && d.range == tr && d.kind == DeclKind::Field).map(|d| d.doc.clone())),
                            None => None,
                        };
                        if let Some(want_doc) = want_doc {
                            if h.document != want_doc {
                                return fail("C19.hover-doc", "C19.hover-doc:FieldLet".into(), format!("{fname}:{at}: document {:?} on a field override whose declaration is at {target:?}, expected {want_doc:?}", h.document));
                            }
                        }
                    }
                }
            }
            let mc_spans: Vec<(usize, usize)> = p.classrefs.iter().filter(|r| r.file == fi && r.is_multiclass).filter_map(|r| r.args_range).collect();
            let norm = |hs: Vec<ide::handlers::inlay_hint::InlayHint>| -> Vec<(usize, String)> {
                hs.into_iter().map(|h| (u32::from(h.position) as usize, h.label)).filter(|(p, _)| !mc_spans.iter().any(|s| s.0 <= *p && *p <= s.1)).collect()
            };
            let full = norm(a.inlay_hint(frange(f, 0, text.len())).unwrap_or_default());
            // every expected hint present with a label containing the expected text, nothing else
            let mut unmatched: Vec<&(usize, String)> = Vec::new();
            for w in &want {
                if !full.iter().any(|(p, l)| *p == w.0 && l.contains(&w.1)) {
                    unmatched.push(w);
                }
            }
            let extra: Vec<&(usize, String)> = full.iter().filter(|(p, l)| !want.iter().any(|w| w.0 == *p && l.contains(&w.1))).collect();
            if !unmatched.is_empty() || !extra.is_empty() || full.len() != want.len() {
                return fail("C19.hints-full", "C19.hints-full".into(), format!("{fname}: whole-file hints: missing {unmatched:?}, unexpected {extra:?} (got {} hints, expected {})", full.len(), want.len()));
            }
            // sub-ranges
            let mut ranges: Vec<(usize, usize, &'static str)> = Vec::new();
            for s in p.stmts.iter().filter(|s| s.file == fi) {
                ranges.push((s.range.0, s.range.1, "statement"));
            }
            for r in p.classrefs.iter().filter(|r| r.file == fi) {
                ranges.push((r.name_range.0, r.name_range.1, "class-name-only"));
            }
            let mut rng = Rng::new(digest(case) ^ fi as u64);
            let b: Vec<usize> = text.char_indices().map(|(i, _)| i).chain([text.len()]).collect();
            for _ in 0..16 {
                let x = b[rng.below(b.len())];
                let y = b[rng.below(b.len())];
                if x != y {
                    ranges.push((x.min(y), x.max(y), "random"));
                }
            }
            for (s, e, kind) in ranges {
                let sub = norm(a.inlay_hint(frange(f, s, e)).unwrap_or_default());
                for h in &sub {
                    if !full.contains(h) {
                        return fail("C19.hints-subrange", format!("C19.hints-subrange-not-subset:{kind}"), format!("{fname}: range {s}..{e} returns hint {h:?} that the whole-file request does not return"));
                    }
                    if h.0 < s || h.0 > e {
                        return fail("C19.hints-subrange", format!("C19.hints-outside-range:{kind}"), format!("{fname}: range {s}..{e} ({kind}) returns hint {h:?} positioned outside the range"));
                    }
                }
            }
        }
        Verdict::pass(docs >= 1 && npos >= 1 && nlet >= 1)
    }
    fn shrink_keep(&self) -> &'static [&'static str] {
        &["kind", "seed", "opts"]
    }
}
