//! C06 — definition/reference coherence on arbitrary input (oracle-free).
use std::collections::{HashMap, HashSet};

use ide::file_system::FileId;

use super::{wsq, wsspace};
use crate::fw::*;
use crate::ws::{case_files, id_tokens_by_parse, pos, r2, Workspace};

pub struct C06;

impl Property for C06 {
    fn id(&self) -> &'static str {
        "C06"
    }
    fn rule(&self) -> String {
        "C03's workspaces (valid, mutated, corpus) x every Id token of every workspace file (found with the repository's own parser) x {first, middle, last} offset. Oracle: if goto_definition answers T, T is exactly an Id token of a workspace file with the same text as the token under the cursor; every range of references is an Id token with that text; goto_definition from each of them gives T; the token under the cursor is T or one of the references; goto_definition None <=> references None. distinct = digest of workspace; non-trivial = some symbol with >=2 references, or a cross-file link".into()
    }
    fn families(&self, ctx: &Ctx) -> Vec<Family> {
        wsspace::families(ctx)
    }
    fn run_case(&self, _ctx: &Ctx, case: &Case) -> Verdict {
        let Some((files, root)) = case_files(case) else { return Verdict::Skip("malformed-case") };
        let total: usize = files.iter().map(|f| f.1.len()).sum();
        wsq::budgets_on(total);
        let ws = Workspace::new(&files, &root);
        let a = ws.analysis();
        let wsfiles: Vec<FileId> = ws.workspace_files(&a);
        let texts: HashMap<FileId, String> = wsfiles.iter().filter_map(|f| Some((*f, ws.text_of(*f)?.clone()))).collect();
        let ids: HashMap<FileId, Vec<(usize, usize)>> = texts.iter().map(|(f, t)| (*f, id_tokens_by_parse(t))).collect();
        let idset: HashMap<FileId, HashSet<(usize, usize)>> = ids.iter().map(|(f, v)| (*f, v.iter().copied().collect())).collect();
        let mut verified: HashSet<(FileId, usize, usize, usize)> = HashSet::new();
        wsq::budgets_off();
        let path = |f: FileId| ws.fs.path_of(f).unwrap_or_else(|| format!("{f:?}"));
        let mut multi_ref = false;
        let mut cross = false;
        let mut checked = 0usize;
        for &file in &wsfiles {
            let Some(text) = texts.get(&file) else { continue };
            let toks = &ids[&file];
            // cap the per-file work on big corpus files: every token up to 4000, then strided
            let stride = (toks.len() / 4000).max(1);
            for &(s, e) in toks.iter().step_by(stride) {
                let word = &text[s..e];
                for o in [s, (s + e) / 2, e - 1] {
                    let d = a.goto_definition(pos(file, o));
                    let refs = a.references(pos(file, o));
                    checked += 1;
                    let here = format!("{}@{o} ({word:?})", path(file));
                    let Some(t) = d else {
                        if refs.is_some() {
                            return Verdict::Fail(Failure::plain("C06.refs-without-definition", format!("{here}: references answers but goto_definition does not")));
                        }
                        continue;
                    };
                    let Some(refs) = refs else {
                        return Verdict::Fail(Failure::plain("C06.definition-without-refs", format!("{here}: goto_definition answers but references does not")));
                    };
                    let (ts, te) = r2(t.range);
                    let Some(ttext) = texts.get(&t.file) else {
                        return Verdict::Fail(Failure::plain("C06.target-file", format!("{here}: target in {} which is not a workspace file", path(t.file))));
                    };
                    if !idset[&t.file].contains(&(ts, te)) {
                        return Verdict::Fail(Failure::plain("C06.target-not-identifier", format!("{here}: target {}:{ts}..{te} is not an identifier token", path(t.file))));
                    }
                    if &ttext[ts..te] != word {
                        return Verdict::Fail(Failure::plain("C06.target-text", format!("{here}: target {}:{ts}..{te} reads {:?}", path(t.file), &ttext[ts..te])));
                    }
                    if t.file != file {
                        cross = true;
                    }
                    if refs.len() >= 2 {
                        multi_ref = true;
                    }
                    let mut self_found = t.file == file && (ts, te) == (s, e);
                    if !self_found {
                        self_found = refs.iter().any(|r| r.file == file && r2(r.range) == (s, e));
                    }
                    // the reference list of one target is verified once (per list length)
                    let first_time = verified.insert((t.file, ts, te, refs.len()));
                    for r in refs.iter().filter(|_| first_time) {
                        let (rs, re) = r2(r.range);
                        let Some(rtext) = texts.get(&r.file) else {
                            return Verdict::Fail(Failure::plain("C06.reference-file", format!("{here}: reference in {} which is not a workspace file", path(r.file))));
                        };
                        if !idset[&r.file].contains(&(rs, re)) || &rtext[rs..re] != word {
                            return Verdict::Fail(Failure::plain("C06.reference-not-same-identifier", format!("{here}: reference {}:{rs}..{re} is not an identifier token reading {word:?}", path(r.file))));
                        }
                        if r.file == file && (rs, re) == (s, e) {
                            self_found = true;
                        }
                        let back = a.goto_definition(pos(r.file, rs));
                        if back != Some(t) {
                            return Verdict::Fail(Failure::plain(
                                "C06.reference-resolves-elsewhere",
                                format!("{here}: definition {}:{ts}..{te}, but goto_definition from its reference {}:{rs}..{re} gives {:?}", path(t.file), path(r.file), back.map(|b| (path(b.file), r2(b.range)))),
                            ));
                        }
                    }
                    if !self_found {
                        return Verdict::Fail(Failure::plain("C06.cursor-neither-target-nor-reference", format!("{here}: token {s}..{e} is neither the target {}:{ts}..{te} nor among its {} references", path(t.file), refs.len())));
                    }
                }
            }
        }
        Verdict::Pass { nontrivial: checked > 0 && (multi_ref || cross), labels: vec![if cross { "cross-file" } else { "same-file" }] }
    }
    fn shrink_keep(&self) -> &'static [&'static str] {
        &["kind", "root"]
    }
}
