//! Lock-step sessions against the real server (shared by C11 / C12).
use std::collections::{BTreeMap, BTreeSet};
use std::time::Duration;

use serde_json::{json, Value};

use crate::lspc::{Client, TempWs};
use crate::sched::Sched;
use crate::ws::Workspace;

pub struct LspSession {
    pub tw: TempWs,
    pub c: Client,
    pub sched: std::sync::Arc<Sched>,
    tag: String,
    pub opened: BTreeSet<String>,
    pub notifications_sent: u64,
    doc_versions: std::collections::BTreeMap<String, i64>,
    pub last_touched: Option<String>,
}

impl LspSession {
    pub fn start() -> Option<LspSession> {
        LspSession::start_in(TempWs::new())
    }

    pub fn start_in(tw: TempWs) -> Option<LspSession> {
        let mut c = Client::start(2);
        let sched = Sched::register(&c.thread_tag);
        let tag = c.thread_tag.clone();
        if !c.initialize() {
            Sched::unregister(&tag);
            c.shutdown();
            return None;
        }
        Some(LspSession { tw, c, sched, tag, opened: BTreeSet::new(), notifications_sent: 0, doc_versions: Default::default(), last_touched: None })
    }

    /// didOpen (first time) or didChange of `name` with `text`; waits until the server is idle and
    /// everything it emitted has been received. false = inconclusive (timeout).
    pub fn touch(&mut self, name: &str, text: &str) -> bool {
        let uri = self.tw.uri(name);
        let v = self.next_version(name);
        if self.opened.insert(name.to_string()) {
            self.c.did_open(&uri, text);
        } else {
            self.c.did_change(&uri, v, text);
        }
        self.notifications_sent += 1;
        self.last_touched = Some(name.to_string());
        if !self.sched.wait_idle(self.notifications_sent, Duration::from_secs(60)) {
            return false;
        }
        self.c.barrier(&uri)
    }

    /// didClose (no analysis is triggered by it)
    pub fn close(&mut self, name: &str) {
        if self.opened.remove(name) {
            let uri = self.tw.uri(name);
            self.c.notify("textDocument/didClose", serde_json::json!({"textDocument": {"uri": uri}}));
            self.c.sent_notifications -= 1;
            // the didClose handler has begin/end schedule points too: it counts for wait_idle
            self.notifications_sent += 1;
        }
    }

    /// didSave of an open document (the server has nothing to do for it: the editor's buffer stays the truth)
    pub fn save(&mut self, name: &str) {
        if self.opened.contains(name) {
            let uri = self.tw.uri(name);
            self.c.notify("textDocument/didSave", serde_json::json!({"textDocument": {"uri": uri}}));
            self.c.sent_notifications -= 1;
        }
    }

    /// like `touch` but without waiting
    pub fn touch_async(&mut self, name: &str, text: &str) {
        let uri = self.tw.uri(name);
        let v = self.next_version(name);
        if self.opened.insert(name.to_string()) {
            self.c.did_open(&uri, text);
        } else {
            self.c.did_change(&uri, v, text);
        }
        self.notifications_sent += 1;
        self.last_touched = Some(name.to_string());
    }

    /// document versions as an editor counts them: per document, 1 at didOpen, +1 with every change,
    /// starting over when the document is opened again after a close
    fn next_version(&mut self, name: &str) -> i64 {
        let v = if self.opened.contains(name) { self.doc_versions.get(name).copied().unwrap_or(1) + 1 } else { 1 };
        self.doc_versions.insert(name.to_string(), v);
        v
    }

    pub fn settle(&mut self) -> bool {
        let Some(last) = self.last_touched.clone() else { return true };
        if !self.sched.wait_idle(self.notifications_sent, Duration::from_secs(60)) {
            return false;
        }
        let uri = self.tw.uri(&last);
        self.c.barrier(&uri)
    }

    /// A comparison failed: before it is believed, give the server another chance to be observed
    /// completely (idle again, a pause, a second barrier). A state that is really wrong stays wrong -
    /// the server is idle and nothing is sent meanwhile - while a publication that was still on its
    /// way when the first barrier was answered has arrived afterwards. Returns false on timeout.
    pub fn resettle(&mut self) -> bool {
        let Some(last) = self.last_touched.clone() else { return true };
        std::thread::sleep(Duration::from_millis(150));
        if !self.sched.wait_idle(self.notifications_sent, Duration::from_secs(60)) {
            return false;
        }
        let uri = self.tw.uri(&last);
        let before = self.c.notifications.len();
        let ok = self.c.barrier(&uri);
        if self.c.notifications.len() != before {
            // keep a trace for the developer: this should not happen if the barrier is a barrier
            let rec = json!({
                "late": self.c.notifications[before..].iter().map(|n| n["params"]["uri"].clone()).collect::<Vec<_>>(),
                "points": self.sched.log().iter().map(|(a, s)| format!("{a}:{s}")).collect::<Vec<_>>(),
                "arrivals": self.c.arrivals,
            });
            let dir = crate::fw::sup::verif_dir().join("harness/target/run");
            let _ = std::fs::create_dir_all(&dir);
            let _ = std::fs::write(dir.join(format!("late-publication-{}-{}.json", std::process::id(), before)), rec.to_string());
        }
        ok
    }

    pub fn finish(self) {
        Sched::unregister(&self.tag);
        self.c.shutdown();
    }
}

/// diagnostics of a fresh ide-level analysis over `texts` (name -> text) with root `root`,
/// converted with the repository's own to_proto: uri -> sorted [{range, message}]
pub fn expected_diagnostics(tw: &TempWs, texts: &BTreeMap<String, String>, root: &str) -> BTreeMap<String, Vec<Value>> {
    let files: Vec<(String, String)> = texts.iter().map(|(n, t)| (tw.abs(n), t.clone())).collect();
    let ws = Workspace::new(&files, &tw.abs(root));
    let a = ws.analysis();
    let mut out = BTreeMap::new();
    for (fid, ds) in a.diagnostics() {
        let li = a.line_index(fid);
        let mut v: Vec<Value> = ds
            .into_iter()
            .map(|d| {
                let x = lsp::to_proto::diagnostic(&li, d);
                json!({"range": serde_json::to_value(x.range).unwrap(), "message": x.message})
            })
            .collect();
        v.sort_by_key(|x| x.to_string());
        out.insert(format!("file://{}", ws.fs.path_of(fid).unwrap_or_default()), v);
    }
    out
}

/// outline (names, nested) of a fresh ide-level analysis
pub fn expected_outline(tw: &TempWs, texts: &BTreeMap<String, String>, root: &str, of: &str) -> Option<Vec<Value>> {
    let files: Vec<(String, String)> = texts.iter().map(|(n, t)| (tw.abs(n), t.clone())).collect();
    let ws = Workspace::new(&files, &tw.abs(root));
    let a = ws.analysis();
    let fid = ws.fs.id_of(&tw.abs(of))?;
    fn names(s: &ide::handlers::document_symbol::DocumentSymbol) -> Value {
        json!({"name": s.name.to_string(), "children": s.children.iter().map(names).collect::<Vec<_>>()})
    }
    a.document_symbol(fid).map(|v| v.iter().map(names).collect())
}

pub fn outline_names(v: &Value) -> Value {
    json!({"name": v["name"], "children": v["children"].as_array().map(|c| c.iter().map(outline_names).collect::<Vec<_>>()).unwrap_or_default()})
}

/// Compares what the server last published / answers for documentSymbol with a fresh ide-level
/// analysis over `model` (name -> text) rooted at `root`. Ok(()) or Err((what, detail)); Err with
/// what == "" means inconclusive (no response).
pub fn compare_with_fresh(s: &mut LspSession, model: &BTreeMap<String, String>, root: &str) -> Result<(), (String, String)> {
    match compare_with_fresh_once(s, model, root) {
        Ok(()) => Ok(()),
        Err(e) if e.0.is_empty() => Err(e),
        Err(_) => {
            if !s.resettle() {
                return Err((String::new(), "not idle".into()));
            }
            compare_with_fresh_once(s, model, root)
        }
    }
}

fn compare_with_fresh_once(s: &mut LspSession, model: &BTreeMap<String, String>, root: &str) -> Result<(), (String, String)> {
    let expected = expected_diagnostics(&s.tw, model, root);
    let published = s.c.last_diagnostics();
    for (uri, want) in &expected {
        let got = published.get(uri).map(|x| x.1.clone());
        if got.as_ref() != Some(want) {
            let which = if uri.ends_with(root) { "root" } else { "included" };
            return Err((format!("diagnostics:{which}"), format!("diagnostics of {uri}: {got:?}; a fresh analysis of the current texts (root {root}) gives {want:?}")));
        }
    }
    for open in s.opened.clone() {
        let uri = s.tw.uri(&open);
        if !expected.contains_key(&s.tw.key(&open)) {
            continue;
        }
        let want = expected_outline(&s.tw, model, root, &open);
        let r = s.c.request("textDocument/documentSymbol", json!({"textDocument": {"uri": uri}}), Duration::from_secs(30));
        let Ok(r) = r else { return Err((String::new(), "no response".into())) };
        let got = r["result"].as_array().map(|v| v.iter().map(outline_names).collect::<Vec<_>>());
        let norm = |o: Option<Vec<Value>>| o.filter(|v| !v.is_empty());
        if norm(got.clone()) != norm(want.clone()) {
            return Err(("outline".into(), format!("outline of open document {open}: {got:?}; a fresh analysis of the current texts (root {root}) gives {want:?}")));
        }
    }
    Ok(())
}
