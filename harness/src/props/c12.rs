//! C12 — editor buffers are the source of truth for open documents.
use std::collections::BTreeMap;

use serde_json::json;

use super::session::{compare_with_fresh, LspSession};
use crate::fw::*;

pub struct C12;

const DISK_R: &str = "include \"i.td\"\ndef r_disk : DiskI;\n";
const DISK_I: &str = "class DiskI { int a = 0; }\n";

const DISK_I_CYCLIC: &str = "include \"r.td\"\nclass DiskI { int a = 0; }\n";

fn buffer_text_in(doc: usize, b: usize, cyclic: bool) -> String {
    let t = buffer_text(doc, b);
    if doc == 1 && cyclic {
        format!("include \"r.td\"\n{t}")
    } else {
        t
    }
}

fn buffer_text(doc: usize, b: usize) -> String {
    if doc == 0 {
        // the root buffer uses the class of buffer variant b of I and the disk class
        format!("include \"i.td\"\ndef r_buf{b} : BufI{b};\ndef r_uses_disk : DiskI;\n")
    } else {
        format!("class BufI{b} {{ int a = {b}; }}\n// buffer variant {b}\n")
    }
}

fn name(doc: usize) -> &'static str {
    if doc == 0 {
        "r.td"
    } else {
        "i.td"
    }
}

impl Property for C12 {
    fn id(&self) -> &'static str {
        "C12"
    }
    fn rule(&self) -> String {
        "sessions over a root r.td that includes i.td, where disk texts and editor buffers differ observably (each variant of i.td declares a differently named class, each variant of r.td uses one buffer class and the disk class, so outline and 'class not found' diagnostics reveal which text was analysed). Events: open/change of r.td or i.td with one of two buffer variants (a change of an unopened document is an open), close of either document (the disk is the truth again; checked at the next analysed step), a touch of an unrelated third document (root of a workspace without r.td and i.td), a change of r.td to a text without its include, and didSave of either document (no effect on which text is the truth; the disk keeps differing from the buffer, as after an external rewrite): every sequence of length <= 4 (thorough <= 5) over the 4 (document, variant) events, 2 closes, 2 saves and the 2 workspace-leaving events exhaustively (plus family reopened-documents: 1..3 further edits, a close, a re-open and an edit of the same document, with per-document version numbers that start over at every didOpen), each with i.td present on disk, with i.td never saved (no file on disk), and with an i.td that includes r.td back (include cycle through every edited document) and - sequences of length <= 3 (thorough <= 4) - in a workspace directory the editor reaches through a symbolic link, and while another program rewrites both files on disk after every analysed step (buffer variant 0 then being the text on disk at that moment: a document opened unmodified), and in a directory whose name has characters (`+`, `[`, `]`, a blank) that the client escapes in its URIs and URL libraries do not, and with i.td in a directory of its own below INCLUDE_DIR, included by a path that only INCLUDE_DIR resolves (a library file that is opened and edited). Reference session model: texts = disk overlaid by the buffers of opened documents, root = last touched document. After every step the last published diagnostics of every file of the model's workspace and the documentSymbol answer of every open document in it must equal a fresh ide-level analysis over the model's texts. distinct = digest of the event sequence; non-trivial = a step at which an open included document's buffer differs from disk while the other document is (re)analysed".into()
    }
    fn assumptions(&self) -> Vec<String> {
        vec!["the disk is modified during a session only in the external-writes flavour (then after an analysed step, never during one); the model takes the last touched document as root because that is what didOpen/didChange do; a close triggers no analysis, so its effect is observed at the next open/change".into()]
    }
    fn families(&self, ctx: &Ctx) -> Vec<Family> {
        let maxlen = ctx.tier.pick(4usize, 5usize);
        let symlinked_upto = ctx.tier.pick(3usize, 4usize);
        vec![Family::new("all-sessions", 4, move |first, _r, emit| {
            for len in 1..=maxlen {
                let mut idx = vec![0usize; len];
                // the first event is an open (0..4); later events range over 0..10 (4, 5 = close r.td / i.td; 6, 7 = save; 8 = unrelated document; 9 = r.td without its include)
                idx[0] = first as usize;
                loop {
                    let ev: Vec<_> = idx
                        .iter()
                        .map(|e| match *e {
                            0..=3 => json!([e / 2, e % 2]),
                            4 | 5 => json!([e - 4, 2]),
                            6 | 7 => json!([e - 6, 3]),
                            // 8: an unrelated third document is touched (it becomes the root of a workspace
                            // without r.td and i.td); 9: r.td is changed to a text without its include
                            8 => json!([2, 0]),
                            _ => json!([0, 4]),
                        })
                        .collect();
                    if !emit(json!({"kind": "buffer-session", "events": ev})) {
                        return;
                    }
                    // the same session with an included document that was never saved (no file on disk)
                    if !emit(json!({"kind": "buffer-session", "events": ev, "no_disk_i": true})) {
                        return;
                    }
                    // the same session where i.td includes r.td back: every edited document is then
                    // reached again through the includes of its own workspace
                    if !emit(json!({"kind": "buffer-session", "events": ev, "cyclic": true})) {
                        return;
                    }
                    // the same session in a workspace the editor reaches through a symbolic link (the
                    // document URIs spell the link, the files live elsewhere)
                    if len <= symlinked_upto && !emit(json!({"kind": "buffer-session", "events": ev, "symlinked": true})) {
                        return;
                    }
                    // the same session while another program keeps rewriting both files on disk (after every
                    // analysed step), and where buffer variant 0 is the text that is on disk at that moment
                    // (a document opened unmodified): an open document is its buffer all the same
                    if len <= symlinked_upto && !emit(json!({"kind": "buffer-session", "events": ev, "external_writes": true})) {
                        return;
                    }
                    // the same session in a directory whose name has characters that editors escape in URIs and
                    // URL libraries do not (`+`, `[`, `]`), with a client that escapes them: one file, two spellings
                    if len <= symlinked_upto && !emit(json!({"kind": "buffer-session", "events": ev, "escaped_uris": true})) {
                        return;
                    }
                    // the same session with i.td in a directory of its own below INCLUDE_DIR (a library that comes
                    // with the tools): r.td includes it by a path that only INCLUDE_DIR resolves
                    if len <= symlinked_upto && !emit(json!({"kind": "buffer-session", "events": ev, "library": true})) {
                        return;
                    }
                    // the same session with include statements that spell their file in a roundabout way
                    // (`./i.td`, `.//r.td`): one file, whatever the spelling
                    if len <= symlinked_upto && !emit(json!({"kind": "buffer-session", "events": ev, "dotted": true, "cyclic": len % 2 == 0})) {
                        return;
                    }
                    // the same session with an included document whose name does not end in .td (a generated
                    // .inc file): a document like any other
                    if len <= symlinked_upto && !emit(json!({"kind": "buffer-session", "events": ev, "inc_name": true})) {
                        return;
                    }
                    let mut k = len;
                    let mut done = false;
                    loop {
                        if k == 1 {
                            done = true;
                            break;
                        }
                        k -= 1;
                        if idx[k] + 1 < 10 {
                            idx[k] += 1;
                            break;
                        }
                        idx[k] = 0;
                    }
                    if done {
                        break;
                    }
                }
            }
        })
        .exhaustive(),
        // longer sessions of one shape: a document is edited a few times, closed, opened again and edited
        // again (an editor counts versions per document and starts over at every didOpen), then the other
        // document is touched
        Family::new("reopened-documents", 2, |d, _r, emit| {
            for edits in 1..=3u64 {
                for a in 0..2u64 {
                    for tail in 0..3u64 {
                        let mut ev: Vec<serde_json::Value> = vec![json!([d, a])];
                        for k in 0..edits {
                            ev.push(json!([d, (a + k + 1) % 2]));
                        }
                        ev.push(json!([d, 2]));
                        ev.push(json!([d, a]));
                        ev.push(json!([d, 1 - a]));
                        match tail {
                            0 => {}
                            1 => ev.push(json!([1 - d, a])),
                            _ => {
                                ev.push(json!([1 - d, a]));
                                ev.push(json!([d, a]));
                            }
                        }
                        for flavour in ["plain", "cyclic"] {
                            let mut c = json!({"kind": "buffer-session", "events": ev});
                            if flavour == "cyclic" {
                                c["cyclic"] = json!(true);
                            }
                            if !emit(c) {
                                return;
                            }
                        }
                    }
                }
            }
        })
        .exhaustive(),
        // sessions in which the editor's text of a document is empty while the file on disk is not: every
        // sequence over {r.td v0, i.td v0, i.td v1, r.td emptied, i.td emptied, close r.td, close i.td, an
        // unrelated document} that begins with an open
        Family::new("emptied-buffers", 4, move |first, _r, emit| {
            let code = |e: usize| match e {
                0 => json!([0, 0]),
                1 => json!([1, 0]),
                2 => json!([1, 1]),
                3 => json!([0, 5]),
                4 => json!([1, 5]),
                5 => json!([0, 2]),
                6 => json!([1, 2]),
                _ => json!([2, 0]),
            };
            let firsts = [0usize, 1, 3, 4];
            for len in 1..=symlinked_upto {
                let mut idx = vec![0usize; len];
                loop {
                    let mut ev = vec![code(firsts[first as usize % 4])];
                    ev.extend(idx[1..].iter().map(|e| code(*e)));
                    if ev.iter().any(|e| e[1] == 5) {
                        for flavour in ["plain", "no_disk_i", "cyclic"] {
                            let mut c = json!({"kind": "buffer-session", "events": ev});
                            if flavour != "plain" {
                                c[flavour] = json!(true);
                            }
                            if !emit(c) {
                                return;
                            }
                        }
                    }
                    let mut k = len;
                    let mut done = false;
                    loop {
                        if k == 1 {
                            done = true;
                            break;
                        }
                        k -= 1;
                        if idx[k] + 1 < 8 {
                            idx[k] += 1;
                            break;
                        }
                        idx[k] = 0;
                    }
                    if done {
                        break;
                    }
                }
            }
        })
        .exhaustive()]
    }
    fn run_case(&self, _ctx: &Ctx, case: &Case) -> Verdict {
        let Some(events) = case["events"].as_array() else { return Verdict::Skip("malformed-case") };
        let tw = if case["symlinked"].as_bool() == Some(true) {
            crate::lspc::TempWs::new_symlinked()
        } else if case["escaped_uris"].as_bool() == Some(true) {
            crate::lspc::TempWs::new_special()
        } else if case["library"].as_bool() == Some(true) {
            match crate::lspc::TempWs::new_library(&["i.td"]) {
                Some(tw) => tw,
                None => return Verdict::Skip("no-include-dir"),
            }
        } else {
            crate::lspc::TempWs::new()
        };
        let Some(mut s) = LspSession::start_in(tw) else { return Verdict::Skip("initialize-failed") };
        let no_disk_i = case["no_disk_i"].as_bool() == Some(true);
        let cyclic = case["cyclic"].as_bool() == Some(true);
        // (with i.td in the library, r.td names it with the library's directory)
        let lib = s.tw.library_subdir().map(|d| d.to_string());
        let dotted = case["dotted"].as_bool() == Some(true);
        let inc_name = case["inc_name"].as_bool() == Some(true);
        let iname: &'static str = if inc_name { "i.inc" } else { "i.td" };
        let name = |doc: usize| -> &'static str { if doc == 0 { "r.td" } else { iname } };
        let in_lib = |t: String| match &lib {
            Some(d) => t.replace("include \"i.td\"", &format!("include \"{d}/i.td\"")),
            None if dotted => t.replace("include \"i.td\"", "include \"./i.td\"").replace("include \"r.td\"", "include \".//r.td\""),
            None if inc_name => t.replace("include \"i.td\"", "include \"i.inc\""),
            None => t,
        };
        let disk_i = if cyclic { DISK_I_CYCLIC } else { DISK_I };
        s.tw.write("r.td", &in_lib(DISK_R.to_string()));
        let mut model: BTreeMap<String, String> = BTreeMap::new();
        model.insert("r.td".into(), in_lib(DISK_R.to_string()));
        let disk_i_text = if dotted { in_lib(disk_i.to_string()) } else { disk_i.to_string() };
        let disk_i = disk_i_text.as_str();
        if !no_disk_i {
            s.tw.write(iname, disk_i);
            model.insert(iname.into(), disk_i.into());
        }
        let external = case["external_writes"].as_bool() == Some(true);
        let mut disk: BTreeMap<String, String> = model.clone();
        let mut writes = 0;
        let mut nontrivial = false;
        let mut verdict = None;
        for (step, ev) in events.iter().enumerate() {
            let (Some(doc), Some(b)) = (ev[0].as_u64(), ev[1].as_u64()) else {
                verdict = Some(Verdict::Skip("malformed-case"));
                break;
            };
            if doc == 2 {
                // an unrelated third document: while it is the root, r.td and i.td are outside the workspace
                // (their buffers stay the truth all the same)
                let text = format!("class Other{step};\n");
                model.insert("o.td".to_string(), text.clone());
                if !s.touch("o.td", &text) {
                    verdict = Some(Verdict::Skip("not-idle"));
                    break;
                }
                if let Err((what, detail)) = compare_with_fresh(&mut s, &model, "o.td") {
                    verdict = Some(if what.is_empty() { Verdict::Skip("no-response") } else { Verdict::Fail(Failure::new("C12.diagnostics-not-from-buffers", format!("C12.unrelated-root:{what}"), format!("events {} step {step}: {detail}", case["events"]))) });
                    break;
                }
                continue;
            }
            let (doc, b) = (doc as usize % 2, b as usize % 6);
            if b == 3 {
                // save: the editor says it wrote the document; whatever is on disk, the buffer stays the
                // truth for an open document (here the disk never changes, so it keeps differing)
                s.save(name(doc));
                continue;
            }
            if b == 2 {
                // close: the disk is the truth again for that document; nothing is re-analysed now
                if s.opened.contains(name(doc)) {
                    s.close(name(doc));
                    match disk.get(name(doc)) {
                        Some(t) => {
                            model.insert(name(doc).into(), t.clone());
                        }
                        None => {
                            model.remove(name(doc));
                        }
                    }
                    if external {
                        // the other program writes the closed document's file once more: what the file held at
                        // the moment of closing is not what it holds when it is read next (the close has been
                        // handled by then: the server is idle and has answered a request sent behind it)
                        if !s.settle() {
                            verdict = Some(Verdict::Skip("not-idle"));
                            break;
                        }
                        writes += 1;
                        let new_r = if writes % 2 == 1 { "include \"i.td\"\ndef r_disk_b : DiskI;\ndef r_disk_j : DiskJ;\n" } else { DISK_R };
                        let new_i = match (writes % 2 == 1, cyclic) {
                            (true, false) => "class DiskJ { int a = 1; }\n".to_string(),
                            (true, true) => "include \"r.td\"\nclass DiskJ { int a = 1; }\n".to_string(),
                            (false, _) => disk_i.to_string(),
                        };
                        for (n, t) in [("r.td", in_lib(new_r.to_string())), (iname, new_i)] {
                            s.tw.write(n, &t);
                            disk.insert(n.to_string(), t.clone());
                            if !s.opened.contains(n) {
                                model.insert(n.to_string(), t);
                            }
                        }
                    }
                }
                continue;
            }
            // variant 4 (of r.td only): the buffer without its include line - i.td leaves the workspace
            // variant 5: the editor's text of the document is empty (everything selected and deleted) - an open
            // document all the same, and not what is on disk
            let text = if b == 5 {
                String::new()
            } else if b == 4 {
                "def r_alone;\n".to_string()
            } else if external && b == 0 && disk.contains_key(name(doc)) {
                disk[name(doc)].clone()
            } else {
                buffer_text_in(doc, b, cyclic)
            };
            let doc = if b == 4 { 0 } else { doc };
            let text = if doc == 0 || dotted { in_lib(text) } else { text };
            if doc == 0 && s.opened.contains(iname) && model.get(iname) != disk.get(iname) {
                nontrivial = true;
            }
            model.insert(name(doc).to_string(), text.clone());
            if !s.touch(name(doc), &text) {
                verdict = Some(Verdict::Skip("not-idle"));
                break;
            }
            let root = name(doc);
            match compare_with_fresh(&mut s, &model, root) {
                Ok(()) => {}
                Err((what, _)) if what.is_empty() => {
                    verdict = Some(Verdict::Skip("no-response"));
                    break;
                }
                Err((what, detail)) => {
                    let (oracle, sig) = match what.strip_prefix("diagnostics:") {
                        Some(which) => ("C12.diagnostics-not-from-buffers", format!("C12.diagnostics-not-from-buffers:{which}")),
                        None => ("C12.outline-not-from-buffers", "C12.outline-not-from-buffers".to_string()),
                    };
                    verdict = Some(Verdict::Fail(Failure::new(oracle, sig, format!("events {} step {step}{}: {detail} (texts = disk overlaid by open buffers)", case["events"], if external { format!(" ({writes} external rewrites of the files so far)") } else { String::new() }))));
                    break;
                }
            }
            if external {
                // another program rewrites both files; nobody tells the server. Documents that are not open
                // are what is on disk (seen at the next analysed step), open ones stay their buffers.
                writes += 1;
                let new_r = if writes % 2 == 1 { "include \"i.td\"\ndef r_disk_b : DiskI;\ndef r_disk_j : DiskJ;\n" } else { DISK_R };
                let new_i = match (writes % 2 == 1, cyclic) {
                    (true, false) => "class DiskJ { int a = 1; }\n".to_string(),
                    (true, true) => "include \"r.td\"\nclass DiskJ { int a = 1; }\n".to_string(),
                    (false, _) => disk_i.to_string(),
                };
                for (n, t) in [("r.td", in_lib(new_r.to_string())), (iname, new_i)] {
                    s.tw.write(n, &t);
                    disk.insert(n.to_string(), t.clone());
                    if !s.opened.contains(n) {
                        model.insert(n.to_string(), t);
                    }
                }
            }
        }
        s.finish();
        verdict.unwrap_or(Verdict::pass(nontrivial))
    }
    fn shrink_keep(&self) -> &'static [&'static str] {
        &["kind"]
    }
}
