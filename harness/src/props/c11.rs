//! C11 — published diagnostics converge to the diagnostics of the final state.
use std::collections::BTreeMap;

use serde_json::json;

use super::c07::{variant_text, NVARIANTS};
use super::session::{expected_diagnostics, LspSession};
use crate::fw::*;

pub struct C11;

const NFILES: usize = 3;

fn layout(text: &str, l: u64) -> String {
    match l % 3 {
        0 => text.to_string(),
        1 => super::c09::relayout(text),
        _ => {
            let all = super::c09::relayout(text);
            // keep only the first changed position
            match text.bytes().zip(all.bytes()).position(|(a, b)| a != b) {
                Some(i) => {
                    let mut b = text.as_bytes().to_vec();
                    b[i] = b' ';
                    String::from_utf8(b).unwrap_or_else(|_| text.to_string())
                }
                None => text.to_string(),
            }
        }
    }
}

impl Property for C11 {
    fn id(&self) -> &'static str {
        "C11"
    }
    fn rule(&self) -> String {
        format!("histories of 1..8 didOpen/didChange steps over three documents f0..f2 (the first step opens f0), with steps in which another program writes a file the editor has not opened (family unopened-files: such a file, with diagnostics of its own, enters the workspace through an include and leaves it at a root switch) and - family late-files - a fourth one, f3.td, that does not exist until a step opens it, texts drawn from {NVARIANTS} variants per file (every include subset, renamed declaration, includes moved, syntax error, type error, include of a missing file) x 3 line layouts of the same bytes (as written, every / the first line break after ';' or a closing brace turned into a space: offsets stay, lines move); the harness writes each text to disk before sending it (buffer = disk) and proceeds in lock-step (idle = all tasks ended, then a barrier request). Oracle after EVERY step: for every URI ever published, the last publication equals the diagnostics of a fresh ide-level analysis of the current files with root = last touched document (converted by the repository's own to_proto::diagnostic), or is empty if the URI is not in that workspace; versions per URI never decrease. distinct = digest of history; non-trivial = >=2 steps and some URI whose expected diagnostics changed between non-empty and empty")
    }
    fn families(&self, ctx: &Ctx) -> Vec<Family> {
        vec![
            Family::new("pairs", NFILES as u64, |f, _r, emit| {
                for v1 in 0..NVARIANTS {
                    for v2 in [0usize, 1, 3, 4, 6, 9, 12, 20] {
                        let ops = json!([[0, v1], [f, v2]]);
                        if !emit(json!({"kind": "diag-history", "ops": ops})) {
                            return;
                        }
                    }
                }
            }),
            // the same text re-sent with a different line layout (same bytes, moved line breaks),
            // for the root and for an included file
            Family::new("relayouts", NFILES as u64, |f, _r, emit| {
                for v in 0..NVARIANTS {
                    for (l1, l2) in [(0, 1), (1, 0), (0, 2), (2, 1)] {
                        // f0 variant 7 includes every other file
                        let ops = if f == 0 { json!([[0, v, l1], [0, v, l2]]) } else { json!([[f, v, l1], [0, 7, 0], [f, v, l2], [0, 7, 1]]) };
                        if !emit(json!({"kind": "diag-history", "ops": ops})) {
                            return;
                        }
                    }
                }
            }),
            // a file that was included in vain comes into being: f1 (include subset b) and f0 (subset a) are
            // analysed while f3.td does not exist, then f3.td is opened, then f0 is sent again unchanged -
            // what was unresolvable when a file was last analysed resolves now
            Family::new("late-files", 8, |a, _r, emit| {
                for b in 0..8u64 {
                    for (fa, fb) in [(0u64, 0u64), (1, 0), (0, 2)] {
                        let (va, vb) = (a + 8 * fa, b + 8 * fb);
                        for ops in [json!([[1, vb], [0, va], [3, 0], [0, va]]), json!([[0, va], [3, 1], [1, vb], [0, va]]), json!([[0, va], [2, vb], [3, 0], [2, vb], [0, va]])] {
                            if !emit(json!({"kind": "diag-history", "ops": ops})) {
                                return;
                            }
                        }
                    }
                }
            }),
            // a file the editor never opens is written by another program (every variant: with and without
            // diagnostics of its own), comes into the workspace through f0's includes and leaves it again
            // when a document that includes nothing becomes the root; then f0 once more
            Family::new("unopened-files", 2, |f, _r, emit| {
                let f = f + 1;
                let other = 3 - f;
                for v in 0..NVARIANTS {
                    for ops in [
                        json!([[f, v, 0, 1], [0, 7], [other, 0], [0, 7]]),
                        json!([[0, 7], [f, v, 0, 1], [0, 7, 1], [other, 0], [f, 0, 0, 1], [0, 7]]),
                        json!([[f, v, 0, 1], [other, v, 0, 1], [0, 7], [0, 0], [0, 7, 2]]),
                    ] {
                        if !emit(json!({"kind": "diag-history", "ops": ops})) {
                            return;
                        }
                    }
                }
            }),
            Family::new("bursts", ctx.tier.pick(30, 6000), |_c, rng, emit| {
                for _ in 0..10 {
                    let n = 2 + rng.below(3);
                    let mut ops = vec![json!([0, rng.below(NVARIANTS)])];
                    for _ in 1..n {
                        ops.push(json!([rng.below(NFILES), rng.below(NVARIANTS)]));
                    }
                    if !emit(json!({"kind": "diag-history", "burst": true, "ops": ops})) {
                        return;
                    }
                }
            }),
            Family::new("random-histories", ctx.tier.pick(40, 9000), |_c, rng, emit| {
                for _ in 0..10 {
                    let n = 1 + rng.below(8);
                    let mut ops = vec![json!([0, rng.below(NVARIANTS)])];
                    for _ in 1..n {
                        ops.push(json!([rng.below(NFILES), rng.below(NVARIANTS), rng.weighted(&[3, 1, 1]), rng.weighted(&[4, 1])]));
                    }
                    if !emit(json!({"kind": "diag-history", "ops": ops})) {
                        return;
                    }
                }
            }),
        ]
    }
    fn run_case(&self, _ctx: &Ctx, case: &Case) -> Verdict {
        let Some(ops) = case["ops"].as_array() else { return Verdict::Skip("malformed-case") };
        let Some(mut s) = LspSession::start() else { return Verdict::Skip("initialize-failed") };
        let mut texts: BTreeMap<String, String> = BTreeMap::new();
        for i in 0..NFILES {
            let t = variant_text(i, 0);
            s.tw.write(&format!("f{i}.td"), &t);
            texts.insert(format!("f{i}.td"), t);
        }
        // variant_text is written for 4 files; f3 never exists here (includes of it are "missing")
        let mut last_version: BTreeMap<String, i64> = BTreeMap::new();
        let mut seen_notifications = 0usize;
        let mut flipped = false;
        let mut prev_expected: BTreeMap<String, bool> = BTreeMap::new();
        let mut verdict: Option<Verdict> = None;
        let mut touched: std::collections::BTreeSet<String> = std::collections::BTreeSet::new();
        for (step, op) in ops.iter().enumerate() {
            let (Some(f), Some(v)) = (op[0].as_u64(), op[1].as_u64()) else {
                verdict = Some(Verdict::Skip("malformed-case"));
                break;
            };
            // (f3.td does not exist until a step opens it: includes of it are unresolvable before, resolvable after)
            let name = format!("f{}.td", f as usize % (NFILES + 1));
            // third component: line layout of the same bytes (0 as written, 1 every line break after
            // `;`/`}` turned into a space, 2 only the first one): offsets stay, lines and columns move
            let text = layout(&variant_text(f as usize % (NFILES + 1), v as usize % NVARIANTS), op[2].as_u64().unwrap_or(0));
            // fourth component 1: another program writes the file, the editor is not involved. (A
            // document the editor has touched is the editor's: such a step is left out.)
            if op[3].as_u64() == Some(1) {
                if !touched.contains(&name) {
                    s.tw.write(&name, &text);
                    texts.insert(name.clone(), text.clone());
                }
                continue;
            }
            touched.insert(name.clone());
            s.tw.write(&name, &text);
            texts.insert(name.clone(), text.clone());
            let burst = case["burst"].as_bool() == Some(true);
            if burst {
                // back-to-back: only the state after the last step is observed
                s.touch_async(&name, &text);
                if step + 1 < ops.len() {
                    continue;
                }
                if !s.settle() {
                    verdict = Some(Verdict::Skip("not-idle"));
                    break;
                }
            } else if !s.touch(&name, &text) {
                verdict = Some(Verdict::Skip("not-idle"));
                break;
            }
            // versions never decrease
            for n in &s.c.notifications[seen_notifications..] {
                if n["method"] == "textDocument/publishDiagnostics" {
                    let uri = n["params"]["uri"].as_str().unwrap_or("").to_string();
                    if let Some(ver) = n["params"]["version"].as_i64() {
                        if let Some(prev) = last_version.get(&uri) {
                            if ver < *prev {
                                verdict = Some(Verdict::Fail(Failure::plain("C11.version-decreased", format!("step {step}: {uri} published version {ver} after {prev}"))));
                            }
                        }
                        last_version.insert(uri, ver);
                    }
                }
            }
            seen_notifications = s.c.notifications.len();
            if verdict.is_some() {
                break;
            }
            let expected = expected_diagnostics(&s.tw, &texts, &name);
            let mut published = s.c.last_diagnostics();
            // a mismatch is only believed after the server has been observed a second time (see
            // LspSession::resettle): a wrong final state stays wrong, a publication still on its way arrives
            let differs = |published: &BTreeMap<String, (Option<i64>, Vec<serde_json::Value>)>| published.iter().any(|(uri, (_, got))| *got != expected.get(uri).cloned().unwrap_or_default()) || expected.keys().any(|u| !published.contains_key(u));
            if differs(&published) {
                if !s.resettle() {
                    verdict = Some(Verdict::Skip("not-idle"));
                    break;
                }
                published = s.c.last_diagnostics();
            }
            for (uri, (_, got)) in &published {
                let want = expected.get(uri).cloned().unwrap_or_default();
                if *got != want {
                    let in_ws = expected.contains_key(uri);
                    let sig = if in_ws { "C11.last-publication-differs" } else { "C11.stale-after-leaving-workspace" };
                    verdict = Some(Verdict::Fail(Failure::new(
                        sig,
                        sig,
                        format!("after step {step} (touch {name}, history {}): last publication for {uri} is {got:?}, the final state has {want:?} (file {} the workspace)", case["ops"], if in_ws { "is in" } else { "is not in" }),
                    )));
                    break;
                }
            }
            if verdict.is_some() {
                break;
            }
            for (uri, want) in &expected {
                if !published.contains_key(uri) {
                    verdict = Some(Verdict::Fail(Failure::plain("C11.never-published", format!("after step {step}: nothing was ever published for workspace file {uri} (expected {want:?})"))));
                    break;
                }
                let nonempty = !want.is_empty();
                if let Some(p) = prev_expected.get(uri) {
                    if *p != nonempty {
                        flipped = true;
                    }
                }
                prev_expected.insert(uri.clone(), nonempty);
            }
            for (uri, p) in prev_expected.iter_mut() {
                if !expected.contains_key(uri) && *p {
                    *p = false;
                    flipped = true;
                }
            }
            if verdict.is_some() {
                break;
            }
        }
        s.finish();
        verdict.unwrap_or(Verdict::pass(ops.len() >= 2 && flipped))
    }
    fn shrink_keep(&self) -> &'static [&'static str] {
        &["kind"]
    }
}
