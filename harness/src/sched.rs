//! Controlled scheduler over the server's schedule points (feature `verif` of crates/lsp).
//!
//! Every server instance runs on tokio threads named with a unique tag; the process-global
//! hook callback dispatches an event to the `Sched` registered for the calling thread's tag.
//! In controlled mode a thread arriving at a point parks until the controller grants it one
//! step; whether a released thread is *blocked* on a real lock (rather than running) is
//! decided from /proc/self/task/<tid> (sleeping, unchanged context-switch counters).
use std::collections::{BTreeMap, HashMap};
use std::sync::{Arc, Condvar, Mutex, OnceLock};
use std::time::{Duration, Instant};

#[derive(Clone, Debug, Default)]
pub struct Actor {
    pub parked_at: Option<&'static str>,
    pub granted: bool,
    pub tid: u64,
    pub live: bool,
    pub finished: bool,
    pub last_site: &'static str,
}

#[derive(Default)]
pub struct State {
    pub controlled: bool,
    pub actors: BTreeMap<String, Actor>,
    pub log: Vec<(String, &'static str)>,
    pub spawned: u64,
    pub ended: u64,
    pub notify_begun: u64,
    pub notify_ended: u64,
    task_names: HashMap<u64, String>,
    /// tasks that died of a panic (descriptions)
    pub panicked: Vec<String>,
}

pub struct Sched {
    pub st: Mutex<State>,
    pub cv: Condvar,
}

fn registry() -> &'static Mutex<HashMap<String, Arc<Sched>>> {
    static R: OnceLock<Mutex<HashMap<String, Arc<Sched>>>> = OnceLock::new();
    R.get_or_init(|| Mutex::new(HashMap::new()))
}

fn gettid() -> u64 {
    unsafe { libc::syscall(libc::SYS_gettid) as u64 }
}

/// For the process-wide panic hook: tells the scheduler of the calling (server) thread, if it has one.
pub fn thread_panicked(description: &str) {
    let name = std::thread::current().name().map(|s| s.to_string()).unwrap_or_default();
    let sched = registry().lock().unwrap().get(&name).cloned();
    if let Some(s) = sched {
        s.on_thread_panicked(description);
    }
}

fn install_callback() {
    static ONCE: OnceLock<()> = OnceLock::new();
    ONCE.get_or_init(|| {
        lsp::verif::set_callback(Some(Arc::new(|ev: &lsp::verif::Event| {
            let name = std::thread::current().name().map(|s| s.to_string()).unwrap_or_default();
            let sched = registry().lock().unwrap().get(&name).cloned();
            if let Some(s) = sched {
                s.on_event(ev);
            }
        })));
    });
}

impl Sched {
    pub fn register(tag: &str) -> Arc<Sched> {
        install_callback();
        let s = Arc::new(Sched { st: Mutex::new(State::default()), cv: Condvar::new() });
        registry().lock().unwrap().insert(tag.to_string(), s.clone());
        s
    }

    pub fn unregister(tag: &str) {
        if let Some(s) = registry().lock().unwrap().remove(tag) {
            // let every parked thread go
            let mut st = s.st.lock().unwrap();
            st.controlled = false;
            for a in st.actors.values_mut() {
                a.granted = true;
            }
            drop(st);
            s.cv.notify_all();
        }
    }

    fn on_event(&self, ev: &lsp::verif::Event) {
        let mut st = self.st.lock().unwrap();
        let actor = if ev.site == "task.spawn" {
            let id = ev.task.unwrap_or(0);
            let name = format!("t{}", st.task_names.len());
            st.task_names.insert(id, name.clone());
            st.spawned += 1;
            st.actors.entry(name).or_default();
            "main".to_string()
        } else {
            match ev.task {
                Some(id) => st.task_names.get(&id).cloned().unwrap_or_else(|| format!("t?{id}")),
                None => "main".to_string(),
            }
        };
        match ev.site {
            "notify.begin" => st.notify_begun += 1,
            "notify.end" => st.notify_ended += 1,
            "task.end" => st.ended += 1,
            _ => {}
        }
        st.log.push((actor.clone(), ev.site));
        let controlled = st.controlled;
        {
            let a = st.actors.entry(actor.clone()).or_default();
            a.tid = gettid();
            a.last_site = ev.site;
            a.live = true;
            if controlled {
                a.parked_at = Some(ev.site);
            }
        }
        if !controlled {
            if matches!(ev.site, "task.end" | "notify.end" | "task.spawn") {
                let a = st.actors.get_mut(&actor).unwrap();
                a.live = false;
                if ev.site == "task.end" {
                    a.finished = true;
                }
            }
            self.cv.notify_all();
            return;
        }
        self.cv.notify_all();
        // park until granted
        loop {
            let a = st.actors.get_mut(&actor).unwrap();
            if a.granted || !st.controlled {
                let a = st.actors.get_mut(&actor).unwrap();
                a.granted = false;
                a.parked_at = None;
                if matches!(ev.site, "task.end" | "notify.end" | "task.spawn") {
                    a.live = false;
                    if ev.site == "task.end" {
                        a.finished = true;
                    }
                }
                break;
            }
            st = self.cv.wait(st).unwrap();
        }
        drop(st);
        self.cv.notify_all();
    }

    pub fn set_controlled(&self, on: bool) {
        let mut st = self.st.lock().unwrap();
        st.controlled = on;
        drop(st);
        self.cv.notify_all();
    }

    pub fn release(&self, actor: &str) {
        let mut st = self.st.lock().unwrap();
        if let Some(a) = st.actors.get_mut(actor) {
            a.granted = true;
        }
        drop(st);
        self.cv.notify_all();
    }

    /// (spawned, ended, notifications begun, notifications ended)
    pub fn counters(&self) -> (u64, u64, u64, u64) {
        let st = self.st.lock().unwrap();
        (st.spawned, st.ended, st.notify_begun, st.notify_ended)
    }

    /// uncontrolled mode: wait until every spawned task has ended and `notifications` handlers ended
    /// Called by the panic hook on a server thread: the task that was running on it (between
    /// `task.begin` and `task.end`) has died and will never report its end. It counts as ended - what
    /// it did not publish stays unpublished, which is for the oracles to judge - and is remembered.
    pub fn on_thread_panicked(&self, description: &str) {
        let tid = gettid();
        let mut st = self.st.lock().unwrap();
        let dead: Vec<String> = st.actors.iter().filter(|(n, a)| n.starts_with('t') && a.tid == tid && a.live && !a.finished).map(|(n, _)| n.clone()).collect();
        for n in dead {
            if let Some(a) = st.actors.get_mut(&n) {
                a.live = false;
                a.finished = true;
            }
            st.ended += 1;
            st.panicked.push(description.to_string());
        }
        drop(st);
        self.cv.notify_all();
    }

    pub fn panicked_tasks(&self) -> Vec<String> {
        self.st.lock().unwrap().panicked.clone()
    }

    pub fn wait_idle(&self, notifications: u64, timeout: Duration) -> bool {
        let deadline = Instant::now() + timeout;
        let mut st = self.st.lock().unwrap();
        loop {
            if st.notify_ended >= notifications && st.spawned == st.ended {
                return true;
            }
            let left = deadline.saturating_duration_since(Instant::now());
            if left.is_zero() {
                return false;
            }
            st = self.cv.wait_timeout(st, left.min(Duration::from_millis(50))).unwrap().0;
        }
    }

    pub fn log(&self) -> Vec<(String, &'static str)> {
        self.st.lock().unwrap().log.clone()
    }
}

#[derive(Debug, Clone, PartialEq)]
pub struct Settled {
    /// actors parked at a schedule point: (name, site)
    pub parked: Vec<(String, &'static str)>,
    /// actors released but blocked on a real lock: (name, last site)
    pub blocked: Vec<(String, &'static str)>,
}

fn thread_sleeping(tid: u64) -> Option<(char, u64)> {
    let status = std::fs::read_to_string(format!("/proc/self/task/{tid}/status")).ok()?;
    let state = status.lines().find_map(|l| l.strip_prefix("State:")).and_then(|v| v.trim().chars().next())?;
    let sw: u64 = status
        .lines()
        .filter(|l| l.starts_with("voluntary_ctxt_switches") || l.starts_with("nonvoluntary_ctxt_switches"))
        .filter_map(|l| l.split(':').nth(1)?.trim().parse::<u64>().ok())
        .sum();
    Some((state, sw))
}

impl Sched {
    /// Waits until no live actor is running: each is parked at a point, blocked on a lock, or
    /// not yet started/finished. `pending_start`: number of actors expected to appear (spawned
    /// tasks that have not reached task.begin yet are waited for).
    pub fn wait_settled(&self, timeout: Duration) -> Option<Settled> {
        let deadline = Instant::now() + timeout;
        let mut stable: HashMap<String, (u64, u32)> = HashMap::new(); // actor -> (switch count, consecutive equal samples)
        loop {
            if Instant::now() > deadline {
                return None;
            }
            let (snapshot, spawned, begun): (Vec<(String, Actor)>, u64, u64) = {
                let st = self.st.lock().unwrap();
                let begun = st.log.iter().filter(|(_, s)| *s == "task.begin").count() as u64;
                (st.actors.iter().map(|(k, v)| (k.clone(), v.clone())).collect(), st.spawned, begun)
            };
            let mut parked = Vec::new();
            let mut blocked = Vec::new();
            // a spawned task has not reached its first point yet (unless its spawner is still
            // parked at the point just before the spawn)
            let spawner_parked = snapshot.iter().any(|(n, a)| n == "main" && a.parked_at == Some("task.spawn") && !a.granted);
            let mut running = spawned > begun && !spawner_parked;
            for (name, a) in &snapshot {
                if !a.live || a.finished {
                    continue;
                }
                if let Some(site) = a.parked_at {
                    if !a.granted {
                        parked.push((name.clone(), site));
                        continue;
                    }
                }
                // released and not arrived anywhere: running or blocked?
                match thread_sleeping(a.tid) {
                    Some(('S', sw)) => {
                        let e = stable.entry(name.clone()).or_insert((sw, 0));
                        if e.0 == sw {
                            e.1 += 1;
                        } else {
                            *e = (sw, 0);
                        }
                        // (asleep and not scheduled once over 24 samples, about ten milliseconds)
                        if e.1 >= 24 {
                            blocked.push((name.clone(), a.last_site));
                        } else {
                            running = true;
                        }
                    }
                    _ => {
                        stable.remove(name);
                        running = true;
                    }
                }
            }
            if !running {
                return Some(Settled { parked, blocked });
            }
            std::thread::sleep(Duration::from_micros(400));
        }
    }
}
