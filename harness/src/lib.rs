//! vcheck library: generators, reference models, oracles (shared by the `vcheck` binary and the fuzz targets).
pub mod fw;
pub mod gen;
pub mod lspc;
pub mod props;
pub mod refm;
pub mod sched;
pub mod ws;
