//! Deterministic PRNG (xoshiro256**) — every random choice of the harness derives from
//! VERIF_SEED, the family name and the chunk index; no wall clock, no OS randomness.
#[derive(Clone)]
pub struct Rng {
    s: [u64; 4],
}

fn splitmix(x: &mut u64) -> u64 {
    *x = x.wrapping_add(0x9E37_79B9_7F4A_7C15);
    let mut z = *x;
    z = (z ^ (z >> 30)).wrapping_mul(0xBF58_476D_1CE4_E5B9);
    z = (z ^ (z >> 27)).wrapping_mul(0x94D0_49BB_1331_11EB);
    z ^ (z >> 31)
}

pub fn fnv(bytes: &[u8]) -> u64 {
    let mut h: u64 = 0xcbf2_9ce4_8422_2325;
    for b in bytes {
        h ^= *b as u64;
        h = h.wrapping_mul(0x0000_0100_0000_01b3);
    }
    h
}

impl Rng {
    pub fn new(seed: u64) -> Self {
        let mut x = seed;
        let s = [splitmix(&mut x), splitmix(&mut x), splitmix(&mut x), splitmix(&mut x)];
        Rng { s }
    }
    pub fn derive(seed: u64, family: &str, chunk: u64) -> Self {
        Rng::new(seed ^ fnv(family.as_bytes()).rotate_left(17) ^ chunk.wrapping_mul(0xD6E8_FEB8_6659_FD93))
    }
    pub fn next(&mut self) -> u64 {
        let r = self.s[1].wrapping_mul(5).rotate_left(7).wrapping_mul(9);
        let t = self.s[1] << 17;
        self.s[2] ^= self.s[0];
        self.s[3] ^= self.s[1];
        self.s[1] ^= self.s[2];
        self.s[0] ^= self.s[3];
        self.s[2] ^= t;
        self.s[3] = self.s[3].rotate_left(45);
        r
    }
    /// uniform in 0..n (n > 0)
    pub fn below(&mut self, n: usize) -> usize {
        debug_assert!(n > 0);
        ((self.next() >> 11) as u128 * n as u128 >> 53) as usize
    }
    pub fn range(&mut self, lo: usize, hi_incl: usize) -> usize {
        lo + self.below(hi_incl - lo + 1)
    }
    pub fn chance(&mut self, num: usize, den: usize) -> bool {
        self.below(den) < num
    }
    pub fn pick<'a, T>(&mut self, xs: &'a [T]) -> &'a T {
        &xs[self.below(xs.len())]
    }
    pub fn pick_str(&mut self, xs: &[&'static str]) -> &'static str {
        xs[self.below(xs.len())]
    }
    /// weighted pick: returns index
    pub fn weighted(&mut self, ws: &[usize]) -> usize {
        let total: usize = ws.iter().sum();
        let mut r = self.below(total.max(1));
        for (i, w) in ws.iter().enumerate() {
            if r < *w {
                return i;
            }
            r -= *w;
        }
        ws.len() - 1
    }
    pub fn shuffle<T>(&mut self, xs: &mut [T]) {
        for i in (1..xs.len()).rev() {
            let j = self.below(i + 1);
            xs.swap(i, j);
        }
    }
}
