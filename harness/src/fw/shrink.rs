//! Generic greedy shrinker over JSON cases: arrays lose elements, objects under "files" lose
//! entries, strings lose lines / tokens / characters (ddmin-style chunk removal). A candidate
//! is accepted when the oracle still fails with the *same signature*, so the shrinker can not
//! slide from a new failure into a known one.
use serde_json::Value;

use super::Case;

#[derive(Clone, Debug)]
enum Step {
    Key(String),
    Idx(usize),
}

fn get_mut<'a>(v: &'a mut Value, path: &[Step]) -> Option<&'a mut Value> {
    let mut cur = v;
    for s in path {
        cur = match s {
            Step::Key(k) => cur.get_mut(k.as_str())?,
            Step::Idx(i) => cur.get_mut(*i)?,
        };
    }
    Some(cur)
}

fn collect_paths(v: &Value, keep: &[&str], path: &mut Vec<Step>, out: &mut Vec<Vec<Step>>) {
    match v {
        Value::Array(a) => {
            out.push(path.clone());
            for (i, x) in a.iter().enumerate() {
                path.push(Step::Idx(i));
                collect_paths(x, keep, path, out);
                path.pop();
            }
        }
        Value::Object(o) => {
            if matches!(path.last(), Some(Step::Key(k)) if k == "files") {
                out.push(path.clone());
            }
            for (k, x) in o {
                if keep.contains(&k.as_str()) {
                    continue;
                }
                path.push(Step::Key(k.clone()));
                collect_paths(x, keep, path, out);
                path.pop();
            }
        }
        Value::String(s) if !s.is_empty() => out.push(path.clone()),
        Value::Number(n) if n.as_u64().map(|x| x > 0).unwrap_or(false) => out.push(path.clone()),
        _ => {}
    }
}

fn split_lines(s: &str) -> Vec<&str> {
    s.split_inclusive('\n').collect()
}

fn split_tokens(s: &str) -> Vec<&str> {
    // maximal runs of [alnum_] / whitespace, everything else char by char
    let mut out = Vec::new();
    let mut it = s.char_indices().peekable();
    while let Some((i, c)) = it.next() {
        let class = |c: char| {
            if c.is_alphanumeric() || c == '_' {
                1
            } else if c.is_whitespace() {
                2
            } else {
                0
            }
        };
        let k = class(c);
        let mut end = i + c.len_utf8();
        if k != 0 {
            while let Some(&(j, d)) = it.peek() {
                if class(d) == k {
                    end = j + d.len_utf8();
                    it.next();
                } else {
                    break;
                }
            }
        }
        out.push(&s[i..end]);
    }
    out
}

fn split_chars(s: &str) -> Vec<&str> {
    s.char_indices().map(|(i, c)| &s[i..i + c.len_utf8()]).collect()
}

pub struct Shrinker<'a> {
    pub keep: &'a [&'a str],
    pub budget: usize,
    pub used: usize,
}

impl<'a> Shrinker<'a> {
    pub fn new(keep: &'a [&'a str], budget: usize) -> Self {
        Shrinker { keep, budget, used: 0 }
    }

    fn try_parts(
        &mut self,
        cur: &mut Case,
        path: &[Step],
        parts: Vec<String>,
        fails: &mut dyn FnMut(&Case) -> bool,
    ) -> bool {
        // ddmin-like: remove chunks of decreasing size
        let mut parts = parts;
        let mut improved = false;
        let mut chunk = parts.len().div_ceil(2).max(1);
        loop {
            let mut i = 0;
            while i < parts.len() && parts.len() > 0 {
                if self.used >= self.budget {
                    return improved;
                }
                let end = (i + chunk).min(parts.len());
                let mut cand_parts = parts.clone();
                cand_parts.drain(i..end);
                let mut cand = cur.clone();
                if let Some(slot) = get_mut(&mut cand, path) {
                    *slot = Value::String(cand_parts.concat());
                }
                self.used += 1;
                if fails(&cand) {
                    *cur = cand;
                    parts = cand_parts;
                    improved = true;
                } else {
                    i = end;
                }
            }
            if chunk == 1 {
                break;
            }
            chunk = chunk.div_ceil(2);
        }
        improved
    }

    pub fn shrink(&mut self, case: &Case, fails: &mut dyn FnMut(&Case) -> bool) -> Case {
        let mut cur = case.clone();
        loop {
            let mut improved = false;
            let mut paths = Vec::new();
            collect_paths(&cur, self.keep, &mut Vec::new(), &mut paths);
            for path in paths {
                if self.used >= self.budget {
                    return cur;
                }
                let Some(node) = get_mut(&mut cur, &path).map(|n| n.clone()) else { continue };
                match node {
                    Value::Array(a) => {
                        let mut items = a;
                        let mut chunk = items.len().div_ceil(2).max(1);
                        loop {
                            let mut i = 0;
                            while i < items.len() {
                                if self.used >= self.budget {
                                    return cur;
                                }
                                let end = (i + chunk).min(items.len());
                                let mut cand_items = items.clone();
                                cand_items.drain(i..end);
                                let mut cand = cur.clone();
                                if let Some(slot) = get_mut(&mut cand, &path) {
                                    *slot = Value::Array(cand_items.clone());
                                }
                                self.used += 1;
                                if fails(&cand) {
                                    cur = cand;
                                    items = cand_items;
                                    improved = true;
                                } else {
                                    i = end;
                                }
                            }
                            if chunk <= 1 {
                                break;
                            }
                            chunk = chunk.div_ceil(2);
                        }
                    }
                    Value::Object(o) => {
                        for k in o.keys() {
                            if self.used >= self.budget {
                                return cur;
                            }
                            let mut cand = cur.clone();
                            if let Some(Value::Object(m)) = get_mut(&mut cand, &path) {
                                m.remove(k);
                            }
                            self.used += 1;
                            if fails(&cand) {
                                cur = cand;
                                improved = true;
                            }
                        }
                    }
                    Value::Number(n) => {
                        let v = n.as_u64().unwrap_or(0);
                        let mut cands = vec![0, v / 2, v.saturating_sub(1)];
                        cands.dedup();
                        for c in cands {
                            if c >= v || self.used >= self.budget {
                                continue;
                            }
                            let mut cand = cur.clone();
                            if let Some(slot) = get_mut(&mut cand, &path) {
                                *slot = Value::from(c);
                            }
                            self.used += 1;
                            if fails(&cand) {
                                cur = cand;
                                improved = true;
                                break;
                            }
                        }
                    }
                    Value::String(s) => {
                        for unit in 0..3 {
                            let s_now = match get_mut(&mut cur, &path) {
                                Some(Value::String(x)) => x.clone(),
                                _ => s.clone(),
                            };
                            let parts: Vec<String> = match unit {
                                0 => split_lines(&s_now),
                                1 => split_tokens(&s_now),
                                _ => split_chars(&s_now),
                            }
                            .into_iter()
                            .map(|x| x.to_string())
                            .collect();
                            if unit == 2 && parts.len() > 400 {
                                continue;
                            }
                            if parts.len() < 1 {
                                continue;
                            }
                            if self.try_parts(&mut cur, &path, parts, fails) {
                                improved = true;
                            }
                        }
                    }
                    _ => {}
                }
            }
            if !improved || self.used >= self.budget {
                return cur;
            }
        }
    }
}

pub fn split_tokens_pub(s: &str) -> Vec<String> {
    split_tokens(s).into_iter().map(|x| x.to_string()).collect()
}
