//! Mini framework: cases are JSON values, families generate them chunk-wise from a derived
//! PRNG (or enumerate them), `Property::run_case` is the executable oracle, failures are
//! shrunk generically on the JSON value and written as replay files.
pub mod rng;
pub mod shrink;
pub mod sup;

use std::cell::RefCell;
use std::collections::{BTreeMap, HashSet};
use std::panic::{catch_unwind, AssertUnwindSafe};
use std::sync::atomic::{AtomicBool, AtomicU64, Ordering};
use std::sync::Mutex;

pub use rng::{fnv, Rng};
use serde_json::{json, Value};

pub type Case = Value;

#[derive(Clone, Copy, PartialEq, Eq, Debug)]
pub enum Tier {
    Quick,
    Thorough,
}

impl Tier {
    pub fn parse(s: &str) -> Option<Tier> {
        match s {
            "quick" => Some(Tier::Quick),
            "thorough" => Some(Tier::Thorough),
            _ => None,
        }
    }
    pub fn name(self) -> &'static str {
        match self {
            Tier::Quick => "quick",
            Tier::Thorough => "thorough",
        }
    }
    pub fn pick<T>(self, q: T, t: T) -> T {
        match self {
            Tier::Quick => q,
            Tier::Thorough => t,
        }
    }
}

#[derive(Clone, Debug)]
pub struct Failure {
    /// which oracle clause failed (stable identifier)
    pub oracle: String,
    /// root-cause signature: what the known-findings file is keyed on. As narrow as the
    /// oracle can make it; "<oracle>" alone when no narrower classification applies.
    pub sig: String,
    pub detail: String,
}

impl Failure {
    pub fn new(oracle: &str, sig: impl Into<String>, detail: impl Into<String>) -> Self {
        Failure { oracle: oracle.to_string(), sig: sig.into(), detail: detail.into() }
    }
    pub fn plain(oracle: &str, detail: impl Into<String>) -> Self {
        Failure { oracle: oracle.to_string(), sig: oracle.to_string(), detail: detail.into() }
    }
}

pub enum Verdict {
    Pass { nontrivial: bool, labels: Vec<&'static str> },
    /// outside the property's domain (counted, never a failure)
    Skip(&'static str),
    Fail(Failure),
}

impl Verdict {
    pub fn pass(nontrivial: bool) -> Verdict {
        Verdict::Pass { nontrivial, labels: Vec::new() }
    }
}

/// Known findings of one property: signature -> (id, what)
#[derive(Clone, Default, Debug)]
pub struct Known {
    pub sigs: BTreeMap<String, (String, String)>,
}

impl Known {
    pub fn has(&self, sig: &str) -> bool {
        self.sigs.contains_key(sig)
    }
}

pub struct Ctx {
    pub tier: Tier,
    pub seed: u64,
    pub known: Known,
}

pub type Emit<'a> = &'a mut dyn FnMut(Case) -> bool;

pub struct Family {
    pub name: String,
    pub chunks: u64,
    /// generate the cases of one chunk; `emit` returns false when generation should stop
    pub gen: Box<dyn Fn(u64, &mut Rng, Emit) + Send + Sync>,
    pub exhaustive: bool,
}

impl Family {
    pub fn new(
        name: &str,
        chunks: u64,
        gen: impl Fn(u64, &mut Rng, Emit) + Send + Sync + 'static,
    ) -> Family {
        Family { name: name.to_string(), chunks, gen: Box::new(gen), exhaustive: false }
    }
    pub fn exhaustive(mut self) -> Family {
        self.exhaustive = true;
        self
    }
}

pub trait Property: Sync + Send {
    fn id(&self) -> &'static str;
    /// evidence level; must equal the category claimed in MANIFEST.json
    fn level(&self) -> &'static str {
        "exploration"
    }
    fn rule(&self) -> String;
    fn assumptions(&self) -> Vec<String> {
        Vec::new()
    }
    fn families(&self, ctx: &Ctx) -> Vec<Family>;
    fn run_case(&self, ctx: &Ctx, case: &Case) -> Verdict;
    /// keys of string fields the generic shrinker must leave alone
    fn shrink_keep(&self) -> &'static [&'static str] {
        &["kind", "fam", "q", "op", "root", "uri", "name", "file", "path"]
    }
    /// minimum number of distinct non-trivial cases below which the run is "inconclusive"
    /// Is "a case never returns" itself a violation of this property (termination / totality
    /// properties), or only a reason to call the run inconclusive?
    fn hang_is_violation(&self) -> bool {
        false
    }
    fn min_nontrivial(&self, _tier: Tier) -> u64 {
        2
    }
}

// ---------------------------------------------------------------------------------------
// panic capture

thread_local! {
    static LAST_PANIC: RefCell<Option<String>> = const { RefCell::new(None) };
}

pub fn install_panic_hook() {
    std::panic::set_hook(Box::new(|info| {
        let msg = if let Some(s) = info.payload().downcast_ref::<&str>() {
            s.to_string()
        } else if let Some(s) = info.payload().downcast_ref::<String>() {
            s.clone()
        } else {
            "<non-string panic>".to_string()
        };
        let loc = info
            .location()
            .map(|l| format!("{}:{}", l.file(), l.line()))
            .unwrap_or_else(|| "?".into());
        let description = format!("{msg} @ {loc}");
        crate::sched::thread_panicked(&description);
        LAST_PANIC.with(|p| *p.borrow_mut() = Some(description));
    }));
}

pub fn take_panic() -> String {
    LAST_PANIC.with(|p| p.borrow_mut().take()).unwrap_or_else(|| "<panic>".into())
}

/// Normalises a panic description to a signature: message text with digits collapsed, and the
/// source file (without line number, so that unrelated edits do not change it).
pub fn panic_sig(desc: &str) -> String {
    let (msg, loc) = match desc.rsplit_once(" @ ") {
        Some((m, l)) => (m, l),
        None => (desc, "?"),
    };
    let file = loc.rsplit_once(':').map(|x| x.0).unwrap_or(loc);
    let file = file.rsplit('/').take(2).collect::<Vec<_>>().into_iter().rev().collect::<Vec<_>>().join("/");
    let mut m = String::new();
    let mut last_digit = false;
    for c in msg.chars().take(80) {
        if c.is_ascii_digit() {
            if !last_digit {
                m.push('N');
            }
            last_digit = true;
        } else {
            m.push(c);
            last_digit = false;
        }
    }
    format!("panic:{m}@{file}")
}

/// Runs the oracle on one case, converting a panic *of the harness or of the code under
/// test* into a failure with oracle "panic".
pub fn eval(prop: &dyn Property, ctx: &Ctx, case: &Case) -> Verdict {
    match catch_unwind(AssertUnwindSafe(|| prop.run_case(ctx, case))) {
        Ok(v) => v,
        Err(_) => {
            let d = take_panic();
            Verdict::Fail(Failure::new("panic", panic_sig(&d), d))
        }
    }
}

// ---------------------------------------------------------------------------------------
// statistics

#[derive(Default, Clone)]
pub struct FamStats {
    pub evaluations: u64,
    pub nontrivial: u64,
    pub skipped: BTreeMap<String, u64>,
    pub labels: BTreeMap<String, u64>,
    pub known: BTreeMap<String, u64>,
    pub samples: Vec<Case>,
}

#[derive(Clone)]
pub struct Found {
    pub family: String,
    pub chunk: u64,
    pub index: u64,
    pub case: Case,
    pub failure: Failure,
}

pub struct RunResult {
    pub stats: BTreeMap<String, FamStats>,
    pub digests: HashSet<u64>,
    pub failures: Vec<Found>,
    pub exhaustive: bool,
}

pub fn digest(case: &Case) -> u64 {
    fnv(case.to_string().as_bytes())
}

pub fn truncate_case(case: &Case) -> Case {
    match case {
        Value::String(s) if s.len() > 400 => {
            let mut cut = 400;
            while !s.is_char_boundary(cut) {
                cut -= 1;
            }
            Value::String(format!("{}…[{} bytes]", &s[..cut], s.len()))
        }
        Value::Array(a) => {
            let mut v: Vec<Value> = a.iter().take(24).map(truncate_case).collect();
            if a.len() > 24 {
                v.push(json!(format!("…[{} items]", a.len())));
            }
            Value::Array(v)
        }
        Value::Object(o) => Value::Object(o.iter().map(|(k, v)| (k.clone(), truncate_case(v))).collect()),
        other => other.clone(),
    }
}

/// Progress sink: the supervisor uses it to find out which chunks were in flight when the
/// child died on a signal.
pub trait Progress: Sync {
    fn chunk_start(&self, fam: &str, chunk: u64);
    fn chunk_done(&self, fam: &str, chunk: u64, evals: u64);
    /// a case failed (first of its signature in the chunk): recorded at once, so that it survives a run
    /// that is killed later because another case does not return
    fn case_failed(&self, _fam: &str, _chunk: u64, _case: &Case) {}
    /// a case has returned: a chunk of slow cases (whole server sessions on a loaded machine) shows that it
    /// is alive between its first and its last case
    fn heartbeat(&self) {}
}

pub struct NoProgress;
impl Progress for NoProgress {
    fn chunk_start(&self, _: &str, _: u64) {}
    fn chunk_done(&self, _: &str, _: u64, _: u64) {}
}

pub const STACK: usize = 256 << 20;

/// Runs all families on `threads` worker threads (each with a large stack).
/// `only`: restrict to one (family, chunk) and call `trace` before each case.
pub fn run_all(
    prop: &dyn Property,
    ctx: &Ctx,
    threads: usize,
    progress: &dyn Progress,
    only: Option<(&str, u64)>,
    trace: Option<&(dyn Fn(&Case) + Sync)>,
) -> RunResult {
    let families = prop.families(ctx);
    let mut work: Vec<(usize, u64)> = Vec::new();
    for (fi, f) in families.iter().enumerate() {
        for c in 0..f.chunks {
            if let Some((of, oc)) = only {
                if f.name != of || c != oc {
                    continue;
                }
            }
            work.push((fi, c));
        }
    }
    let next = AtomicU64::new(0);
    let stop = AtomicBool::new(false);
    // once a violation is certain, the rest of the run is bounded in time as well (a change that makes every
    // case fail slowly - a deadlock diagnosed after seconds - must not take the whole watchdog): two minutes
    // after the first new failure no further case is started. The verdict does not depend on it.
    let started = std::time::Instant::now();
    let first_failure_ms = AtomicU64::new(0);
    let overdue = || {
        let f = first_failure_ms.load(Ordering::SeqCst);
        f != 0 && started.elapsed().as_millis() as u64 > f + 120_000
    };
    let merged: Mutex<(BTreeMap<String, FamStats>, HashSet<u64>, Vec<Found>)> =
        Mutex::new((BTreeMap::new(), HashSet::new(), Vec::new()));
    let exhaustive = families.iter().all(|f| f.exhaustive) && !families.is_empty();

    std::thread::scope(|scope| {
        for _ in 0..threads.max(1) {
            std::thread::Builder::new()
                .stack_size(STACK)
                .spawn_scoped(scope, || loop {
                    let i = next.fetch_add(1, Ordering::SeqCst) as usize;
                    if i >= work.len() || stop.load(Ordering::SeqCst) || overdue() {
                        break;
                    }
                    let (fi, chunk) = work[i];
                    let fam = &families[fi];
                    progress.chunk_start(&fam.name, chunk);
                    let mut st = FamStats::default();
                    let mut digs: HashSet<u64> = HashSet::new();
                    let mut found: Vec<Found> = Vec::new();
                    let mut rng = Rng::derive(ctx.seed, &fam.name, chunk);
                    let mut idx = 0u64;
                    let want_samples = chunk == 0;
                    let gen_res = catch_unwind(AssertUnwindSafe(|| {
                        (fam.gen)(chunk, &mut rng, &mut |case: Case| {
                            if let Some(t) = trace {
                                t(&case);
                            }
                            let v = eval(prop, ctx, &case);
                            progress.heartbeat();
                            st.evaluations += 1;
                            idx += 1;
                            match v {
                                Verdict::Pass { nontrivial, labels } => {
                                    for l in labels {
                                        *st.labels.entry(l.to_string()).or_default() += 1;
                                    }
                                    if nontrivial {
                                        st.nontrivial += 1;
                                        digs.insert(digest(&case));
                                        if want_samples && st.samples.len() < 3 {
                                            st.samples.push(truncate_case(&case));
                                        }
                                    }
                                    !overdue()
                                }
                                Verdict::Skip(why) => {
                                    *st.skipped.entry(why.to_string()).or_default() += 1;
                                    !overdue()
                                }
                                Verdict::Fail(f) => {
                                    if ctx.known.has(&f.sig) {
                                        *st.known.entry(f.sig.clone()).or_default() += 1;
                                        true
                                    } else {
                                        // at most one new failure per distinct signature per chunk
                                        let _ = first_failure_ms.compare_exchange(0, (started.elapsed().as_millis() as u64).max(1), Ordering::SeqCst, Ordering::SeqCst);
                                        if !found.iter().any(|x| x.failure.sig == f.sig) {
                                            progress.case_failed(&fam.name, chunk, &case);
                                            found.push(Found {
                                                family: fam.name.clone(),
                                                chunk,
                                                index: idx - 1,
                                                case,
                                                failure: f,
                                            });
                                        }
                                        found.len() < 24 && !overdue()
                                    }
                                }
                            }
                        })
                    }));
                    if gen_res.is_err() {
                        let d = take_panic();
                        found.push(Found {
                            family: fam.name.clone(),
                            chunk,
                            index: idx,
                            case: json!({"kind": "generator-panic"}),
                            failure: Failure::new("harness", "harness:generator-panic", d),
                        });
                    }
                    progress.chunk_done(&fam.name, chunk, st.evaluations);
                    let mut m = merged.lock().unwrap();
                    let e = m.0.entry(fam.name.clone()).or_default();
                    e.evaluations += st.evaluations;
                    e.nontrivial += st.nontrivial;
                    for (k, v) in st.skipped {
                        *e.skipped.entry(k).or_default() += v;
                    }
                    for (k, v) in st.labels {
                        *e.labels.entry(k).or_default() += v;
                    }
                    for (k, v) in st.known {
                        *e.known.entry(k).or_default() += v;
                    }
                    if want_samples {
                        e.samples = st.samples;
                    }
                    m.1.extend(digs);
                    if !found.is_empty() {
                        m.2.extend(found);
                        // keep going a little: other chunks may hold other signatures, but do not
                        // burn the whole budget once a violation is certain
                        if m.2.len() >= 48 {
                            stop.store(true, Ordering::SeqCst);
                        }
                    }
                })
                .expect("spawn worker");
        }
    });
    let (stats, digests, mut failures) = merged.into_inner().unwrap();
    // deterministic order, one per signature
    let fam_order: Vec<String> = families.iter().map(|f| f.name.clone()).collect();
    failures.sort_by_key(|f| {
        (fam_order.iter().position(|n| *n == f.family).unwrap_or(usize::MAX), f.chunk, f.index)
    });
    let mut seen = HashSet::new();
    failures.retain(|f| seen.insert(f.failure.sig.clone()));
    RunResult { stats, digests, failures, exhaustive }
}

pub fn seed_from_env() -> u64 {
    std::env::var("VERIF_SEED").ok().and_then(|s| s.trim().parse::<i64>().ok()).map(|v| v as u64).unwrap_or(20260926)
}

pub fn threads_from_env() -> usize {
    std::env::var("VERIF_THREADS")
        .ok()
        .and_then(|s| s.parse().ok())
        .unwrap_or_else(|| std::thread::available_parallelism().map(|n| n.get()).unwrap_or(8).min(16))
}

pub fn shrink_tokens(s: &str) -> Vec<String> {
    shrink::split_tokens_pub(s)
}
