//! Supervisor / child / trace / eval / replay process modes, evidence and known findings.
use std::collections::{BTreeMap, BTreeSet};
use std::fs;
use std::io::Write;
use std::os::unix::process::ExitStatusExt;
use std::path::{Path, PathBuf};
use std::process::{Command, Stdio};
use std::sync::Mutex;
use std::time::{Duration, Instant};

use serde_json::{json, Value};

use super::shrink::Shrinker;
use super::*;

pub fn verif_dir() -> PathBuf {
    PathBuf::from(std::env::var("VERIF_DIR").unwrap_or_else(|_| "/verif".into()))
}

fn scratch_dir() -> PathBuf {
    let d = verif_dir().join("harness/target/run");
    let _ = fs::create_dir_all(&d);
    d
}

// ---------------------------------------------------------------------------------------
// known findings file

#[derive(Clone, Debug)]
pub struct KnownEntry {
    pub property: String,
    pub id: String,
    pub status: String, // "known" | "fixed"
    pub sig: String,
    pub what: String,
    pub repro: Option<Case>,
}

pub fn load_known_entries() -> Vec<KnownEntry> {
    let p = verif_dir().join("known_findings.json");
    let Ok(txt) = fs::read_to_string(&p) else { return Vec::new() };
    let Ok(v) = serde_json::from_str::<Value>(&txt) else {
        eprintln!("warning: {} is not valid JSON; ignoring", p.display());
        return Vec::new();
    };
    let mut out = Vec::new();
    for e in v.get("findings").and_then(|f| f.as_array()).cloned().unwrap_or_default() {
        let s = |k: &str| e.get(k).and_then(|x| x.as_str()).unwrap_or("").to_string();
        out.push(KnownEntry {
            property: s("property"),
            id: s("id"),
            status: s("status"),
            sig: s("sig"),
            what: s("what"),
            repro: e.get("repro").cloned(),
        });
    }
    out
}

pub fn known_for(prop: &str) -> Known {
    let mut k = Known::default();
    for e in load_known_entries() {
        if e.property == prop && e.status == "known" {
            k.sigs.insert(e.sig.clone(), (e.id.clone(), e.what.clone()));
        }
    }
    k
}

// ---------------------------------------------------------------------------------------
// child side

struct FileProgress {
    f: Mutex<fs::File>,
}

impl Progress for FileProgress {
    fn chunk_start(&self, fam: &str, chunk: u64) {
        let mut f = self.f.lock().unwrap();
        let _ = writeln!(f, "S\t{fam}\t{chunk}");
    }
    fn chunk_done(&self, fam: &str, chunk: u64, evals: u64) {
        let mut f = self.f.lock().unwrap();
        let _ = writeln!(f, "D\t{fam}\t{chunk}\t{evals}");
    }
    fn case_failed(&self, fam: &str, chunk: u64, case: &Case) {
        let mut f = self.f.lock().unwrap();
        let _ = writeln!(f, "F\t{fam}\t{chunk}\t{}", case.to_string().replace('\n', " "));
    }
    fn heartbeat(&self) {
        // at most one line every ten seconds
        static LAST: Mutex<Option<std::time::Instant>> = Mutex::new(None);
        let mut last = LAST.lock().unwrap();
        if last.map(|t| t.elapsed().as_secs() >= 10).unwrap_or(true) {
            *last = Some(std::time::Instant::now());
            let mut f = self.f.lock().unwrap();
            let _ = writeln!(f, "H");
        }
    }
}

fn failure_json(f: &Failure) -> Value {
    json!({"oracle": f.oracle, "sig": f.sig, "detail": f.detail})
}

fn failure_from(v: &Value) -> Failure {
    let s = |k: &str| v.get(k).and_then(|x| x.as_str()).unwrap_or("").to_string();
    Failure { oracle: s("oracle"), sig: s("sig"), detail: s("detail") }
}

fn result_json(prop: &dyn Property, res: &RunResult) -> Value {
    let mut fams = serde_json::Map::new();
    for (name, st) in &res.stats {
        fams.insert(
            name.clone(),
            json!({
                "evaluations": st.evaluations,
                "nontrivial": st.nontrivial,
                "skipped": st.skipped,
                "labels": st.labels,
                "known": st.known,
                "samples": st.samples,
            }),
        );
    }
    json!({
        "property": prop.id(),
        "families": fams,
        "distinct_nontrivial": res.digests.len(),
        "exhaustive": res.exhaustive,
        "failures": res.failures.iter().map(|f| json!({
            "family": f.family, "chunk": f.chunk, "index": f.index,
            "case": f.case, "failure": failure_json(&f.failure)})).collect::<Vec<_>>(),
    })
}

/// A runaway allocation in the code under test must not take the machine down (no swap; the kernel's
/// OOM killer picks its own victim): cap the address space of every process that runs cases. An
/// allocation beyond the cap aborts that process, which the supervisor sees as a crash of that case.
fn cap_memory() {
    let gib: u64 = std::env::var("VERIF_MEM_GIB").ok().and_then(|s| s.parse().ok()).unwrap_or(24);
    let lim = libc::rlimit { rlim_cur: gib << 30, rlim_max: gib << 30 };
    unsafe {
        libc::setrlimit(libc::RLIMIT_AS, &lim);
    }
}

pub fn child_main(prop: &dyn Property, tier: Tier, out: &Path, progress: &Path) -> i32 {
    cap_memory();
    install_panic_hook();
    let ctx = Ctx { tier, seed: seed_from_env(), known: known_for(prop.id()) };
    let pf = FileProgress {
        f: Mutex::new(fs::OpenOptions::new().create(true).append(true).open(progress).expect("progress file")),
    };
    let mut res = run_all(prop, &ctx, threads_from_env(), &pf, None, None);
    // unshrunk results first (a shrink candidate could in principle abort the process)
    fs::write(out, result_json(prop, &res).to_string()).expect("write result");
    for f in res.failures.iter_mut() {
        if f.failure.oracle == "harness" {
            continue;
        }
        let sig = f.failure.sig.clone();
        let mut sh = Shrinker::new(prop.shrink_keep(), 4000);
        let mut last: Option<Failure> = None;
        let shrunk = sh.shrink(&f.case, &mut |c| match eval(prop, &ctx, c) {
            Verdict::Fail(x) if x.sig == sig => {
                last = Some(x);
                true
            }
            _ => false,
        });
        if let Some(l) = last {
            f.failure = l;
        }
        f.case = shrunk;
    }
    fs::write(out, result_json(prop, &res).to_string()).expect("write result");
    0
}

pub fn trace_main(prop: &dyn Property, tier: Tier, fam: &str, chunk: u64, tracefile: &Path) -> i32 {
    cap_memory();
    install_panic_hook();
    let ctx = Ctx { tier, seed: seed_from_env(), known: known_for(prop.id()) };
    let tf = tracefile.to_path_buf();
    let tracer = move |c: &Case| {
        let _ = fs::write(&tf, c.to_string());
    };
    let _ = run_all(prop, &ctx, 1, &NoProgress, Some((fam, chunk)), Some(&tracer));
    0
}

/// exit 0: pass/skip; exit 3: fail (failure JSON on stdout); signal: crash
pub fn eval_main(prop: &dyn Property, tier: Tier, casefile: &Path, strict: bool) -> i32 {
    cap_memory();
    install_panic_hook();
    let known = if strict { Known::default() } else { known_for(prop.id()) };
    let ctx = Ctx { tier, seed: seed_from_env(), known };
    let txt = fs::read_to_string(casefile).expect("case file");
    let v: Value = serde_json::from_str(&txt).expect("case json");
    let case = v.get("case").cloned().unwrap_or(v);
    // run on a big stack like the workers do
    let r = std::thread::scope(|s| {
        std::thread::Builder::new()
            .stack_size(STACK)
            .spawn_scoped(s, || eval(prop, &ctx, &case))
            .unwrap()
            .join()
            .unwrap()
    });
    match r {
        Verdict::Fail(f) => {
            println!("{}", failure_json(&f));
            3
        }
        Verdict::Skip(w) => {
            println!("{}", json!({"skip": w}));
            0
        }
        Verdict::Pass { nontrivial, .. } => {
            println!("{}", json!({"pass": true, "nontrivial": nontrivial}));
            0
        }
    }
}

// ---------------------------------------------------------------------------------------
// parent side

enum SubResult {
    Pass,
    Fail(Failure),
    Crash(Failure),
    Timeout,
}

fn signal_name(sig: i32) -> &'static str {
    match sig {
        libc::SIGSEGV => "SIGSEGV",
        libc::SIGABRT => "SIGABRT",
        libc::SIGBUS => "SIGBUS",
        libc::SIGILL => "SIGILL",
        libc::SIGKILL => "SIGKILL",
        libc::SIGFPE => "SIGFPE",
        _ => "SIGNAL",
    }
}

fn crash_failure(sig: i32, stderr: &str) -> Failure {
    let tail: String = stderr.lines().rev().take(6).collect::<Vec<_>>().into_iter().rev().collect::<Vec<_>>().join("\n");
    let s = if stderr.contains("overflowed its stack") {
        "abort:stack-overflow".to_string()
    } else if stderr.contains("memory allocation of") {
        "abort:out-of-memory".to_string()
    } else {
        format!("abort:{}", signal_name(sig))
    };
    Failure::new("abort", s, format!("process died on {} — {}", signal_name(sig), tail))
}

fn wait_with_timeout(mut child: std::process::Child, limit: Duration) -> Option<(std::process::ExitStatus, String, String)> {
    use std::io::Read;
    let start = Instant::now();
    let mut so = child.stdout.take();
    let mut se = child.stderr.take();
    let t_out = std::thread::spawn(move || {
        let mut s = String::new();
        if let Some(o) = so.as_mut() {
            let _ = o.read_to_string(&mut s);
        }
        s
    });
    let t_err = std::thread::spawn(move || {
        let mut s = Vec::new();
        if let Some(e) = se.as_mut() {
            let _ = e.read_to_end(&mut s);
        }
        String::from_utf8_lossy(&s).to_string()
    });
    loop {
        match child.try_wait() {
            Ok(Some(st)) => {
                let o = t_out.join().unwrap_or_default();
                let e = t_err.join().unwrap_or_default();
                return Some((st, o, e));
            }
            Ok(None) => {
                if start.elapsed() > limit {
                    let _ = child.kill();
                    let _ = child.wait();
                    return None;
                }
                std::thread::sleep(Duration::from_millis(if start.elapsed() < Duration::from_secs(1) { 2 } else { 25 }));
            }
            Err(_) => return None,
        }
    }
}

enum Waited {
    Done(std::process::ExitStatus, String, String),
    Watchdog,
    /// the progress file did not change for the stall limit
    Stalled,
}

/// like `wait_with_timeout`, but also gives up when the child's progress file stops changing
fn wait_child(mut child: std::process::Child, limit: Duration, progress: &Path, stall: Duration) -> Waited {
    use std::io::Read;
    let start = Instant::now();
    let mut so = child.stdout.take();
    let mut se = child.stderr.take();
    let t_out = std::thread::spawn(move || {
        let mut s = String::new();
        if let Some(o) = so.as_mut() {
            let _ = o.read_to_string(&mut s);
        }
        s
    });
    let t_err = std::thread::spawn(move || {
        let mut s = Vec::new();
        if let Some(e) = se.as_mut() {
            let _ = e.read_to_end(&mut s);
        }
        String::from_utf8_lossy(&s).to_string()
    });
    let mut last_len = 0u64;
    let mut last_change = Instant::now();
    loop {
        match child.try_wait() {
            Ok(Some(st)) => {
                let o = t_out.join().unwrap_or_default();
                let e = t_err.join().unwrap_or_default();
                return Waited::Done(st, o, e);
            }
            Ok(None) => {
                let len = fs::metadata(progress).map(|m| m.len()).unwrap_or(0);
                if len != last_len {
                    last_len = len;
                    last_change = Instant::now();
                }
                let stalled = last_change.elapsed() > stall;
                if start.elapsed() > limit || stalled {
                    let _ = child.kill();
                    let _ = child.wait();
                    return if stalled { Waited::Stalled } else { Waited::Watchdog };
                }
                std::thread::sleep(Duration::from_millis(if start.elapsed() < Duration::from_secs(1) { 2 } else { 25 }));
            }
            Err(_) => return Waited::Watchdog,
        }
    }
}

fn self_exe() -> PathBuf {
    std::env::current_exe().expect("current_exe")
}

fn sub_eval(prop_id: &str, tier: Tier, case: &Case, strict: bool, limit: Duration) -> SubResult {
    let dir = scratch_dir();
    let f = dir.join(format!("eval-{}-{}.json", prop_id, std::process::id()));
    fs::write(&f, case.to_string()).expect("write eval case");
    let child = Command::new(self_exe())
        .args([if strict { "eval-strict" } else { "eval" }, prop_id, tier.name()])
        .arg(&f)
        .stdout(Stdio::piped())
        .stderr(Stdio::piped())
        .spawn()
        .expect("spawn eval");
    let r = wait_with_timeout(child, limit);
    let _ = fs::remove_file(&f);
    match r {
        None => SubResult::Timeout,
        Some((st, out, err)) => {
            if let Some(sig) = st.signal() {
                return SubResult::Crash(crash_failure(sig, &err));
            }
            match st.code() {
                Some(0) => SubResult::Pass,
                Some(3) => {
                    let v: Value = serde_json::from_str(out.lines().last().unwrap_or("{}")).unwrap_or(json!({}));
                    SubResult::Fail(failure_from(&v))
                }
                other => SubResult::Crash(Failure::new(
                    "abort",
                    format!("abort:exit-{other:?}"),
                    format!("eval subprocess exited with {other:?}: {}", err.lines().last().unwrap_or("")),
                )),
            }
        }
    }
}

fn write_replay(prop_id: &str, tier: Tier, seed: u64, found: &Found) -> PathBuf {
    let dir = verif_dir().join("replays").join(prop_id);
    let _ = fs::create_dir_all(&dir);
    let name = format!("{:016x}.json", digest(&found.case) ^ fnv(found.failure.sig.as_bytes()));
    let p = dir.join(name);
    let v = json!({
        "property": prop_id,
        "tier": tier.name(),
        "seed": seed as i64,
        "family": found.family,
        "chunk": found.chunk,
        "index": found.index,
        "failure": failure_json(&found.failure),
        "case": found.case,
    });
    fs::write(&p, serde_json::to_string_pretty(&v).unwrap()).expect("write replay");
    p
}

struct EvidenceIn<'a> {
    prop: &'a dyn Property,
    tier: Tier,
    seed: u64,
    result: Option<&'a Value>,
    partial_evals: u64,
    violations: usize,
    known_lines: Vec<String>,
    notes: Vec<String>,
    wall: f64,
}

fn write_evidence(e: EvidenceIn) {
    let dir = verif_dir().join("evidence");
    let _ = fs::create_dir_all(&dir);
    let mut evaluations = e.partial_evals;
    let mut distinct = 0u64;
    let mut samples: Vec<Value> = Vec::new();
    let mut families = json!({});
    let mut exhaustive = false;
    let mut excluded_known: BTreeMap<String, u64> = BTreeMap::new();
    if let Some(r) = e.result {
        families = r.get("families").cloned().unwrap_or(json!({}));
        evaluations = 0;
        if let Some(o) = families.as_object() {
            for (name, f) in o {
                evaluations += f.get("evaluations").and_then(|x| x.as_u64()).unwrap_or(0);
                for s in f.get("samples").and_then(|x| x.as_array()).cloned().unwrap_or_default() {
                    if samples.len() < 8 {
                        samples.push(json!({"family": name, "case": s}));
                    }
                }
                if let Some(k) = f.get("known").and_then(|x| x.as_object()) {
                    for (sig, n) in k {
                        *excluded_known.entry(sig.clone()).or_default() += n.as_u64().unwrap_or(0);
                    }
                }
            }
        }
        distinct = r.get("distinct_nontrivial").and_then(|x| x.as_u64()).unwrap_or(0);
        exhaustive = r.get("exhaustive").and_then(|x| x.as_bool()).unwrap_or(false);
        // strip samples from the per-family table (they are listed once above)
        if let Some(o) = families.as_object_mut() {
            for (_, f) in o.iter_mut() {
                if let Some(m) = f.as_object_mut() {
                    m.remove("samples");
                }
            }
        }
    }
    if samples.is_empty() {
        samples.push(json!("<no non-trivial sample recorded in chunk 0 of any family>"));
    }
    let v = json!({
        "property_id": e.prop.id(),
        "tier": e.tier.name(),
        "seed": e.seed as i64,
        "level": e.prop.level(),
        "coverage": {
            "evaluations": evaluations,
            "distinct_nontrivial": distinct,
            "rule": e.prop.rule(),
            "samples": samples,
            "exhaustive": exhaustive,
            "families": families,
            "failures_matching_known_findings": excluded_known,
            "known_findings_reported": e.known_lines,
            "notes": e.notes,
        },
        "assumptions": e.prop.assumptions(),
        "wall_s": e.wall,
        "violations": e.violations,
    });
    let p = dir.join(format!("{}.json", e.prop.id()));
    fs::write(&p, serde_json::to_string_pretty(&v).unwrap()).expect("write evidence");
}

fn shrink_via_subprocess(prop: &dyn Property, tier: Tier, case: &Case, sig: &str, budget: usize) -> (Case, Option<Failure>) {
    let mut sh = Shrinker::new(prop.shrink_keep(), budget);
    let mut last = None;
    let id = prop.id();
    let shrunk = sh.shrink(case, &mut |c| match sub_eval(id, tier, c, false, Duration::from_secs(60)) {
        SubResult::Fail(f) | SubResult::Crash(f) if f.sig == sig => {
            last = Some(f);
            true
        }
        _ => false,
    });
    (shrunk, last)
}

/// scratch workspaces of runs that were killed (their process is gone) are removed
fn sweep_stale_scratch() {
    sweep_stale_scratch_in("/dev/shm");
    sweep_stale_scratch_in(crate::ws::INC_DIR);
}

fn sweep_stale_scratch_in(dir: &str) {
    let Ok(rd) = std::fs::read_dir(dir) else { return };
    for e in rd.flatten() {
        let name = e.file_name().to_string_lossy().to_string();
        let Some(rest) = name.strip_prefix("vcheck-ws-") else { continue };
        let pid = rest.split('-').next().unwrap_or("");
        if !pid.is_empty() && pid.chars().all(|c| c.is_ascii_digit()) && !std::path::Path::new(&format!("/proc/{pid}")).exists() {
            let p = e.path();
            if p.is_dir() && !p.is_symlink() {
                let _ = std::fs::remove_dir_all(&p);
            } else {
                let _ = std::fs::remove_file(&p);
            }
        }
    }
}

pub fn parent_main(prop: &dyn Property, tier: Tier) -> i32 {
    sweep_stale_scratch();
    let start = Instant::now();
    let seed = seed_from_env();
    let id = prop.id();
    let mut violations: Vec<Found> = Vec::new();
    let mut known_lines: Vec<String> = Vec::new();
    let mut notes: Vec<String> = Vec::new();
    let mut regress_run = 0usize;

    // 1. canonical repros of listed findings (known: must still fail that way to be
    //    reported; fixed: must pass) and regress files — each in a subprocess
    for e in load_known_entries().into_iter().filter(|e| e.property == id) {
        let Some(repro) = e.repro.clone() else {
            if e.status == "known" {
                known_lines.push(format!("KNOWN-FINDING: property={} {} [{}]", id, e.what, e.id));
            }
            continue;
        };
        let r = sub_eval(id, tier, &repro, true, Duration::from_secs(120));
        match (e.status.as_str(), r) {
            ("known", SubResult::Fail(f)) | ("known", SubResult::Crash(f)) => {
                if f.sig == e.sig {
                    known_lines.push(format!("KNOWN-FINDING: property={} {} [{}]", id, e.what, e.id));
                } else {
                    violations.push(Found {
                        family: format!("known-repro:{}", e.id),
                        chunk: 0,
                        index: 0,
                        case: repro,
                        failure: f,
                    });
                }
            }
            ("known", SubResult::Pass) => {
                notes.push(format!("listed finding {} no longer reproduces on this tree", e.id));
            }
            ("fixed", SubResult::Fail(f)) | ("fixed", SubResult::Crash(f)) => {
                violations.push(Found {
                    family: format!("fixed-repro:{}", e.id),
                    chunk: 0,
                    index: 0,
                    case: repro,
                    failure: f,
                });
            }
            (_, SubResult::Timeout) => {
                notes.push(format!("repro of {} timed out (inconclusive)", e.id));
            }
            _ => {}
        }
    }

    // regress files: shrunk failures of earlier (repaired) defects, must pass
    if let Ok(rd) = fs::read_dir(verif_dir().join("regress").join(id)) {
        let mut files: Vec<PathBuf> = rd.filter_map(|e| e.ok()).map(|e| e.path()).filter(|p| p.extension().map(|x| x == "json").unwrap_or(false)).collect();
        files.sort();
        for f in files {
            let Some(v) = fs::read_to_string(&f).ok().and_then(|t| serde_json::from_str::<Value>(&t).ok()) else { continue };
            let case = v.get("case").cloned().unwrap_or(v);
            match sub_eval(id, tier, &case, true, Duration::from_secs(120)) {
                SubResult::Fail(fl) | SubResult::Crash(fl) => violations.push(Found {
                    family: format!("regress:{}", f.file_name().unwrap().to_string_lossy()),
                    chunk: 0,
                    index: 0,
                    case,
                    failure: fl,
                }),
                _ => {}
            }
            regress_run += 1;
        }
    }
    if regress_run > 0 {
        notes.push(format!("{regress_run} regress replay file(s) re-run"));
    }

    // 2. the main run in a child process
    let dir = scratch_dir();
    let out = dir.join(format!("result-{}-{}.json", id, std::process::id()));
    let prog = dir.join(format!("progress-{}-{}.txt", id, std::process::id()));
    let _ = fs::remove_file(&out);
    let _ = fs::remove_file(&prog);
    let limit = Duration::from_secs(
        std::env::var("VERIF_WATCHDOG_S").ok().and_then(|s| s.parse().ok()).unwrap_or(tier.pick(1500, 4 * 3600)),
    );
    let child = Command::new(self_exe())
        .args(["child", id, tier.name()])
        .arg(&out)
        .arg(&prog)
        .stdout(Stdio::piped())
        .stderr(Stdio::piped())
        .spawn()
        .expect("spawn child");
    // no chunk takes anywhere near this long: a progress file that stops changing means a case hangs
    let stall = Duration::from_secs(std::env::var("VERIF_STALL_S").ok().and_then(|s| s.parse().ok()).unwrap_or(tier.pick(240, 1200)));
    let waited_raw = wait_child(child, limit, &prog, stall);
    let stalled = matches!(waited_raw, Waited::Stalled);
    let waited = match waited_raw {
        Waited::Done(st, o, e) => Some((st, o, e)),
        _ => None,
    };
    let mut result: Option<Value> = fs::read_to_string(&out).ok().and_then(|t| serde_json::from_str(&t).ok());
    let mut partial_evals = 0u64;
    let mut inconclusive = false;

    // progress bookkeeping
    let mut started: BTreeSet<(String, u64)> = BTreeSet::new();
    // cases that failed before the run ended (they matter when the run is killed: its result file is never written)
    let mut failed_early: Vec<(String, u64, Value)> = Vec::new();
    if let Ok(t) = fs::read_to_string(&prog) {
        for l in t.lines() {
            let p: Vec<&str> = l.split('\t').collect();
            if p.len() >= 4 && p[0] == "F" {
                if let Ok(case) = serde_json::from_str::<Value>(p[3]) {
                    failed_early.push((p[1].to_string(), p[2].parse().unwrap_or(0), case));
                }
                continue;
            }
            if p.len() >= 3 {
                let key = (p[1].to_string(), p[2].parse().unwrap_or(0));
                if p[0] == "S" {
                    started.insert(key);
                } else {
                    started.remove(&key);
                    partial_evals += p.get(3).and_then(|x| x.parse::<u64>().ok()).unwrap_or(0);
                }
            }
        }
    }

    match waited {
        None if stalled => {
            // what had failed before the run was killed is a result all the same: each such case is
            // evaluated again in a process of its own
            for (fam, chunk, case) in failed_early.iter().take(24) {
                if let SubResult::Fail(fl) | SubResult::Crash(fl) = sub_eval(id, tier, case, true, Duration::from_secs(300)) {
                    if !known_for(id).has(&fl.sig) && !violations.iter().any(|v| v.failure.sig == fl.sig) {
                        violations.push(Found { family: fam.clone(), chunk: *chunk, index: 0, case: case.clone(), failure: fl });
                    }
                }
            }
            // locate the case that does not return: trace every chunk that was in flight with a short
            // limit (the others finish), then re-run the last traced case twice on its own
            let mut located = false;
            for (fam, chunk) in started.iter() {
                let tf = dir.join(format!("trace-{}-{}.json", id, std::process::id()));
                let _ = fs::remove_file(&tf);
                let c = Command::new(self_exe())
                    .args(["trace", id, tier.name(), fam, &chunk.to_string()])
                    .arg(&tf)
                    .stdout(Stdio::piped())
                    .stderr(Stdio::piped())
                    .spawn()
                    .expect("spawn trace");
                if wait_with_timeout(c, stall).is_none() {
                    if let Some(case) = fs::read_to_string(&tf).ok().and_then(|t| serde_json::from_str::<Value>(&t).ok()) {
                        let again = [sub_eval(id, tier, &case, true, Duration::from_secs(90)), sub_eval(id, tier, &case, true, Duration::from_secs(90))];
                        if again.iter().all(|r| matches!(r, SubResult::Timeout)) {
                            located = true;
                            let shown: String = case.to_string().chars().take(400).collect();
                            if prop.hang_is_violation() {
                                violations.push(Found {
                                    family: fam.clone(),
                                    chunk: *chunk,
                                    index: 0,
                                    case: case.clone(),
                                    failure: Failure::new("hang", "hang", format!("the case does not return: no result within 90 s in two separate processes (it stalled the run for {} s before); cases of this family take milliseconds", stall.as_secs())),
                                });
                            } else {
                                println!("INCONCLUSIVE property={id} a case of family {fam} does not return within 90 s (twice, in separate processes): {shown}");
                                inconclusive = true;
                            }
                        }
                    }
                }
                let _ = fs::remove_file(&tf);
                if located {
                    break;
                }
            }
            if !located {
                println!("INCONCLUSIVE property={id} no progress for {}s and the stalled case could not be isolated", stall.as_secs());
                inconclusive = true;
            }
        }
        None => {
            println!("INCONCLUSIVE property={id} watchdog of {}s expired", limit.as_secs());
            inconclusive = true;
        }
        Some((st, _out, err)) => {
            if let Some(sig) = st.signal() {
                // find the culprit among the chunks that were in flight
                let base = crash_failure(sig, &err);
                let mut located = false;
                for (fam, chunk) in started.iter() {
                    let tf = dir.join(format!("trace-{}-{}.json", id, std::process::id()));
                    let _ = fs::remove_file(&tf);
                    let c = Command::new(self_exe())
                        .args(["trace", id, tier.name(), fam, &chunk.to_string()])
                        .arg(&tf)
                        .stdout(Stdio::piped())
                        .stderr(Stdio::piped())
                        .spawn()
                        .expect("spawn trace");
                    if let Some((st2, _, err2)) = wait_with_timeout(c, limit) {
                        if let Some(sig2) = st2.signal() {
                            if let Some(case) = fs::read_to_string(&tf).ok().and_then(|t| serde_json::from_str::<Value>(&t).ok()) {
                                let f = crash_failure(sig2, &err2);
                                let (shrunk, last) = shrink_via_subprocess(prop, tier, &case, &f.sig, 400);
                                violations.push(Found {
                                    family: fam.clone(),
                                    chunk: *chunk,
                                    index: 0,
                                    case: shrunk,
                                    failure: last.unwrap_or(f),
                                });
                                located = true;
                            }
                        }
                    }
                    let _ = fs::remove_file(&tf);
                    if located {
                        break;
                    }
                }
                if !located && result.is_none() {
                    violations.push(Found {
                        family: "unlocated".into(),
                        chunk: 0,
                        index: 0,
                        case: json!({"kind": "unlocated-crash", "in_flight": started.iter().map(|(f, c)| format!("{f}#{c}")).collect::<Vec<_>>()}),
                        failure: base,
                    });
                }
            } else if st.code() != Some(0) {
                println!("INCONCLUSIVE property={id} child exited with {:?}: {}", st.code(), err.lines().last().unwrap_or(""));
                inconclusive = true;
            }
        }
    }

    if let Some(r) = result.as_mut() {
        for f in r.get("failures").and_then(|x| x.as_array()).cloned().unwrap_or_default() {
            let failure = failure_from(f.get("failure").unwrap_or(&json!({})));
            violations.push(Found {
                family: f.get("family").and_then(|x| x.as_str()).unwrap_or("").to_string(),
                chunk: f.get("chunk").and_then(|x| x.as_u64()).unwrap_or(0),
                index: f.get("index").and_then(|x| x.as_u64()).unwrap_or(0),
                case: f.get("case").cloned().unwrap_or(json!(null)),
                failure,
            });
        }
    }
    let _ = fs::remove_file(&out);
    let _ = fs::remove_file(&prog);

    for l in &known_lines {
        println!("{l}");
    }
    for n in &notes {
        println!("NOTE: {n}");
    }
    let mut harness_fail = false;
    {
        let mut seen = std::collections::HashSet::new();
        violations.retain(|v| seen.insert((v.failure.sig.clone(), digest(&v.case))));
    }
    for v in &violations {
        if v.failure.oracle == "harness" {
            println!("HARNESS-ERROR property={id} {}", v.failure.detail);
            harness_fail = true;
            continue;
        }
        let p = write_replay(id, tier, seed, v);
        println!("VIOLATION property={} replay={}", id, p.display());
        println!("  oracle={} sig={} family={}", v.failure.oracle, v.failure.sig, v.family);
        let d: String = v.failure.detail.chars().take(600).collect();
        println!("  detail: {}", d.replace('\n', "\n          "));
    }
    let real_violations = violations.iter().filter(|v| v.failure.oracle != "harness").count();
    let wall = start.elapsed().as_secs_f64();
    write_evidence(EvidenceIn {
        prop,
        tier,
        seed,
        result: result.as_ref(),
        partial_evals,
        violations: real_violations,
        known_lines: known_lines.clone(),
        notes: notes.clone(),
        wall,
    });
    let distinct = result.as_ref().and_then(|r| r.get("distinct_nontrivial")).and_then(|x| x.as_u64()).unwrap_or(0);
    let evals: u64 = result
        .as_ref()
        .and_then(|r| r.get("families"))
        .and_then(|f| f.as_object())
        .map(|o| o.values().map(|f| f.get("evaluations").and_then(|x| x.as_u64()).unwrap_or(0)).sum())
        .unwrap_or(partial_evals);
    println!(
        "SUMMARY property={id} tier={} seed={} evaluations={} distinct_nontrivial={} violations={} known={} wall_s={:.1}",
        tier.name(),
        seed as i64,
        evals,
        distinct,
        real_violations,
        known_lines.len(),
        wall
    );
    if real_violations > 0 {
        return 1;
    }
    if inconclusive || harness_fail {
        return 2;
    }
    if distinct < prop.min_nontrivial(tier) {
        println!("INCONCLUSIVE property={id} only {distinct} distinct non-trivial cases (< {})", prop.min_nontrivial(tier));
        return 2;
    }
    0
}

pub fn replay_main(prop: &dyn Property, tier: Tier, file: &Path) -> i32 {
    let txt = fs::read_to_string(file).expect("replay file");
    let v: Value = serde_json::from_str(&txt).expect("replay json");
    let case = v.get("case").cloned().unwrap_or(v.clone());
    match sub_eval(prop.id(), tier, &case, true, Duration::from_secs(600)) {
        SubResult::Pass => {
            println!("PASS property={} replay={}", prop.id(), file.display());
            0
        }
        SubResult::Fail(f) | SubResult::Crash(f) => {
            println!("VIOLATION property={} replay={}", prop.id(), file.display());
            println!("  oracle={} sig={}", f.oracle, f.sig);
            println!("  detail: {}", f.detail);
            1
        }
        SubResult::Timeout => {
            println!("INCONCLUSIVE property={} replay timed out", prop.id());
            2
        }
    }
}
