use vcheck::{fw, gen, lspc, props, ws};

use std::path::Path;

use fw::{sup, Property, Tier};

fn usage() -> ! {
    eprintln!("usage: vcheck run <ID> <quick|thorough> | replay <ID> <file> | list");
    std::process::exit(64);
}

fn node_kind_at(root: &syntax::SyntaxNode, at: usize) -> String {
    let t = root.token_at_offset((at as u32).into()).right_biased();
    t.map(|t| t.parent_ancestors().take(4).map(|n| format!("{:?}", n.kind())).collect::<Vec<_>>().join("<")).unwrap_or_default()
}

fn main() {
    ws::init_env();
    let args: Vec<String> = std::env::args().collect();
    if args.len() < 2 {
        usage();
    }
    let registry = props::registry();
    let find = |id: &str| -> &dyn Property {
        match registry.iter().find(|p| p.id() == id) {
            Some(p) => p.as_ref(),
            None => {
                eprintln!("unknown property {id}");
                std::process::exit(64);
            }
        }
    };
    let tier = |s: &str| Tier::parse(s).unwrap_or_else(|| usage());
    let code = match args[1].as_str() {
        "list" => {
            for p in &registry {
                println!("{}", p.id());
            }
            0
        }
        "shape-cov" => {
            // developer tool: production shapes (node kind + kinds of its non-trivia children, runs collapsed)
            // of the real files that neither GRAM nor SEM programs ever produce
            use std::collections::{BTreeMap, BTreeSet};
            fn shapes(text: &str, into: &mut BTreeMap<String, String>) {
                let parse = syntax::parse(text);
                for n in parse.syntax_node().descendants() {
                    let mut kids: Vec<String> = Vec::new();
                    for c in n.children_with_tokens() {
                        let k = format!("{:?}", c.kind());
                        if c.kind().is_trivia() {
                            continue;
                        }
                        if kids.last() != Some(&k) {
                            kids.push(k);
                        }
                    }
                    let key = format!("{:?}({})", n.kind(), kids.join(" "));
                    into.entry(key).or_insert_with(|| n.text().to_string().chars().take(70).collect());
                }
            }
            let n: usize = args.get(2).and_then(|s| s.parse().ok()).unwrap_or(3000);
            let mut rng = fw::Rng::new(7);
            let mut g: BTreeMap<String, String> = BTreeMap::new();
            for _ in 0..n {
                let (_, text) = gen::gram::program(&mut rng, gen::gram::GramOpts { budget: 80, ..Default::default() });
                shapes(&text, &mut g);
            }
            let mut sm: BTreeMap<String, String> = BTreeMap::new();
            for _ in 0..n {
                for (_, t) in gen::sem::program(&mut rng, gen::sem::Opts::Clean).files {
                    shapes(&t, &mut sm);
                }
            }
            let mut real: BTreeMap<String, String> = BTreeMap::new();
            for (_, t) in gen::corpus::llvm().iter().chain(gen::corpus::seeds().iter()) {
                shapes(t, &mut real);
            }
            let gk: BTreeSet<&String> = g.keys().collect();
            let sk: BTreeSet<&String> = sm.keys().collect();
            println!("shapes: real {} gram {} sem {}", real.len(), g.len(), sm.len());
            for (k, ex) in &real {
                if k.contains("Error") {
                    continue;
                }
                let tag = match (gk.contains(k), sk.contains(k)) {
                    (false, false) => "NEITHER",
                    (false, true) => "not-gram",
                    (true, false) => "not-sem",
                    _ => continue,
                };
                println!("{tag}\t{k}\t{:?}", ex);
            }
            0
        }
        "sem" if args.len() >= 4 => {
            // developer/audit tool: write SEM program <seed> into directory args[3]
            let seed: u64 = args[2].parse().unwrap_or(1);
            let mut rng = fw::Rng::new(seed);
            let opts = if args.get(4).map(|s| s == "probes").unwrap_or(false) { gen::sem::Opts::WithProbes } else { gen::sem::Opts::Clean };
            let p = gen::sem::program(&mut rng, opts);
            std::fs::create_dir_all(&args[3]).unwrap();
            for (name, text) in &p.files {
                std::fs::write(std::path::Path::new(&args[3]).join(name), text).unwrap();
            }
            0
        }
        "corpus-diag" if args.len() >= 4 => {
            // developer/audit tool: vcheck corpus-diag <include root> <file relative to it>...: every file
            // below the include root is served under INCLUDE_DIR, the named file is the root; prints the
            // diagnostics of the whole workspace
            let base = std::path::Path::new(&args[2]);
            let mut files: Vec<(String, String)> = Vec::new();
            let mut stack = vec![base.to_path_buf()];
            while let Some(d) = stack.pop() {
                for e in std::fs::read_dir(&d).unwrap().flatten() {
                    let p = e.path();
                    if p.is_dir() {
                        stack.push(p);
                    } else if p.extension().map(|x| x == "td").unwrap_or(false) {
                        let rel = p.strip_prefix(base).unwrap().to_string_lossy().to_string();
                        files.push((format!("{}/{rel}", ws::INC_DIR), std::fs::read_to_string(&p).unwrap_or_default()));
                    }
                }
            }
            for rootrel in &args[3..] {
                let root = format!("{}/{rootrel}", ws::INC_DIR);
                let w = ws::Workspace::new(&files, &root);
                let a = w.analysis();
                let mut n = 0;
                for (f, ds) in a.diagnostics() {
                    for d in ds {
                        n += 1;
                        if n <= 40 {
                            println!("{rootrel}: {} {:?} {}", w.fs.path_of(f).unwrap_or_default(), d.location.range, d.message);
                        }
                    }
                }
                println!("{rootrel}: {n} diagnostics");
                if let Ok(q) = std::env::var("VCHECK_GOTO") {
                    // <path suffix>:<offset>
                    if let Some((suffix, off)) = q.rsplit_once(':') {
                        for (f, _) in a.diagnostics() {
                            let path = w.fs.path_of(f).unwrap_or_default();
                            if path.ends_with(suffix) {
                                let off: usize = off.parse().unwrap_or(0);
                                let d = a.goto_definition(ws::pos(f, off));
                                println!("goto {path}:{off} -> {:?} {:?}", d.as_ref().map(|d| w.fs.path_of(d.file)), d.as_ref().map(|d| d.range));
                                println!("hover -> {:?}", a.hover(ws::pos(f, off)).map(|h| h.signature));
                            }
                        }
                    }
                }
            }
            0
        }
        "corpus-undefine" if args.len() >= 4 => {
            // developer/audit tool: for every k-th identifier of the root on which go-to-definition answers, the
            // identifier is replaced by an undeclared one; lists the replacements that produce no diagnostic
            // at the site, grouped by the syntax around the identifier
            let base = std::path::Path::new(&args[2]);
            let step: usize = args.get(4).and_then(|s| s.parse().ok()).unwrap_or(1);
            let mut files: Vec<(String, String)> = Vec::new();
            let mut stack = vec![base.to_path_buf()];
            while let Some(d) = stack.pop() {
                for e in std::fs::read_dir(&d).unwrap().flatten() {
                    let p = e.path();
                    if p.is_dir() {
                        stack.push(p);
                    } else if p.extension().map(|x| x == "td").unwrap_or(false) {
                        let rel = p.strip_prefix(base).unwrap().to_string_lossy().to_string();
                        files.push((format!("{}/{rel}", ws::INC_DIR), std::fs::read_to_string(&p).unwrap_or_default()));
                    }
                }
            }
            let root = format!("{}/{}", ws::INC_DIR, args[3]);
            let w = ws::Workspace::new(&files, &root);
            let a = w.analysis();
            let text = w.text_of(w.root).cloned().unwrap_or_default();
            let parse = syntax::parse(&text);
            let mut sites: Vec<(usize, usize, String)> = Vec::new();
            for el in parse.syntax_node().descendants_with_tokens() {
                let Some(tok) = el.as_token() else { continue };
                if tok.kind() != syntax::syntax_kind::SyntaxKind::Id {
                    continue;
                }
                let (s0, e0) = (u32::from(tok.text_range().start()) as usize, u32::from(tok.text_range().end()) as usize);
                let Some(d) = a.goto_definition(ws::pos(w.root, s0)) else { continue };
                // the declaring identifier itself is not a use
                if d.file == w.root && u32::from(d.range.start()) as usize == s0 {
                    continue;
                }
                let anc: Vec<String> = tok.parent_ancestors().take(4).map(|n| format!("{:?}", n.kind())).collect();
                sites.push((s0, e0, anc.join("<")));
            }
            let mut silent: std::collections::BTreeMap<String, (usize, Vec<String>)> = Default::default();
            let mut tried = 0;
            for (k, (s0, e0, ctx)) in sites.iter().enumerate() {
                if k % step != 0 {
                    continue;
                }
                tried += 1;
                let mutated = format!("{}Undefined_xyz{}", &text[..*s0], &text[*e0..]);
                let mut f2 = files.clone();
                for f in f2.iter_mut() {
                    if f.0 == root {
                        f.1 = mutated.clone();
                    }
                }
                let w2 = ws::Workspace::new(&f2, &root);
                let a2 = w2.analysis();
                let z = s0 + "Undefined_xyz".len();
                let hit = a2.diagnostics().get(&w2.root).map(|ds| ds.iter().any(|d| (u32::from(d.location.range.start()) as usize) < z && (u32::from(d.location.range.end()) as usize) > *s0)).unwrap_or(false);
                if !hit {
                    let e = silent.entry(ctx.clone()).or_default();
                    e.0 += 1;
                    if e.1.len() < 4 {
                        e.1.push(format!("{}@{s0}", &text[*s0..*e0]));
                    }
                }
            }
            println!("uses {} tried {tried}", sites.len());
            for (k, (n, ex)) in silent {
                println!("{n:5} silent  {k}  e.g. {ex:?}");
            }
            0
        }
        "corpus-outline" if args.len() >= 4 => {
            // developer/audit tool: compares, per file of the workspace, the names of the class / def /
            // defset / multiclass / defm statements that the syntax tree holds outside multiclass bodies
            // (plain identifier names only) with the names in the outline
            let base = std::path::Path::new(&args[2]);
            let mut files: Vec<(String, String)> = Vec::new();
            let mut stack = vec![base.to_path_buf()];
            while let Some(d) = stack.pop() {
                for e in std::fs::read_dir(&d).unwrap().flatten() {
                    let p = e.path();
                    if p.is_dir() {
                        stack.push(p);
                    } else if p.extension().map(|x| x == "td").unwrap_or(false) {
                        let rel = p.strip_prefix(base).unwrap().to_string_lossy().to_string();
                        files.push((format!("{}/{rel}", ws::INC_DIR), std::fs::read_to_string(&p).unwrap_or_default()));
                    }
                }
            }
            let root = format!("{}/{}", ws::INC_DIR, args[3]);
            let w = ws::Workspace::new(&files, &root);
            let a = w.analysis();
            use syntax::syntax_kind::SyntaxKind as K;
            for (f, _) in a.diagnostics() {
                let Some(text) = w.text_of(f).cloned() else { continue };
                let path = w.fs.path_of(f).unwrap_or_default();
                let parse = syntax::parse(&text);
                let mut want: Vec<(String, usize)> = Vec::new();
                for node in parse.syntax_node().descendants() {
                    if !matches!(node.kind(), K::Class | K::Def | K::Defset | K::MultiClass | K::Defm) {
                        continue;
                    }
                    if node.ancestors().skip(1).any(|x| x.kind() == K::MultiClass) {
                        continue;
                    }
                    // the name: the first identifier token that is a direct child, or the only identifier of a
                    // direct Value child without paste
                    let mut name: Option<(String, usize)> = None;
                    for ch in node.children_with_tokens() {
                        match ch {
                            rowan::NodeOrToken::Node(n) if n.kind() == K::Identifier => {
                                let t = n.text().to_string();
                                let lead = t.len() - t.trim_start().len();
                                name = Some((t.trim().to_string(), u32::from(n.text_range().start()) as usize + lead));
                                break;
                            }
                            rowan::NodeOrToken::Node(n) if n.kind() == K::Value => {
                                let t = n.text().to_string();
                                if t.trim().chars().all(|c| c.is_ascii_alphanumeric() || c == '_') && !t.trim().is_empty() {
                                    let lead = t.len() - t.trim_start().len();
                                    name = Some((t.trim().to_string(), u32::from(n.text_range().start()) as usize + lead));
                                }
                                break;
                            }
                            rowan::NodeOrToken::Node(n) if matches!(n.kind(), K::ParentClassList | K::RecordBody | K::Body | K::TemplateArgList) => break,
                            _ => {}
                        }
                    }
                    if let Some(nm) = name {
                        want.push(nm);
                    }
                }
                let mut got: Vec<(String, usize)> = Vec::new();
                fn walk(s: &ide::handlers::document_symbol::DocumentSymbol, out: &mut Vec<(String, usize)>) {
                    use ide::handlers::document_symbol::DocumentSymbolKind as D;
                    if !matches!(s.kind, D::TemplateArgument | D::Field) {
                        out.push((s.name.to_string(), u32::from(s.range.start()) as usize));
                    }
                    for c in &s.children {
                        walk(c, out);
                    }
                }
                for s in a.document_symbol(f).unwrap_or_default() {
                    walk(&s, &mut got);
                }
                want.sort();
                got.sort();
                let missing: Vec<_> = want.iter().filter(|x| !got.contains(x)).take(5).map(|x| { let k = node_kind_at(&parse.syntax_node(), x.1); (x.0.clone(), x.1, k) }).collect();
                let extra: Vec<_> = got.iter().filter(|x| !want.contains(x)).take(6).collect();
                println!("{}: {} statements, {} outline entries, missing {:?} extra {:?}", path.rsplit('/').next().unwrap_or(""), want.len(), got.len(), missing, extra);
            }
            0
        }
        "corpus-unresolved" if args.len() >= 4 => {
            // developer/audit tool: like corpus-diag, but lists identifier tokens on which go-to-definition
            // answers nothing, grouped by the kind of the syntax node they sit in
            let base = std::path::Path::new(&args[2]);
            let mut files: Vec<(String, String)> = Vec::new();
            let mut stack = vec![base.to_path_buf()];
            while let Some(d) = stack.pop() {
                for e in std::fs::read_dir(&d).unwrap().flatten() {
                    let p = e.path();
                    if p.is_dir() {
                        stack.push(p);
                    } else if p.extension().map(|x| x == "td").unwrap_or(false) {
                        let rel = p.strip_prefix(base).unwrap().to_string_lossy().to_string();
                        files.push((format!("{}/{rel}", ws::INC_DIR), std::fs::read_to_string(&p).unwrap_or_default()));
                    }
                }
            }
            let root = format!("{}/{}", ws::INC_DIR, args[3]);
            let w = ws::Workspace::new(&files, &root);
            let a = w.analysis();
            let mut by_ctx: std::collections::BTreeMap<String, (usize, Vec<String>)> = Default::default();
            let mut total = 0usize;
            let mut resolved = 0usize;
            for (f, _) in a.diagnostics() {
                let Some(text) = w.text_of(f).cloned() else { continue };
                let path = w.fs.path_of(f).unwrap_or_default();
                let parse = syntax::parse(&text);
                for el in parse.syntax_node().descendants_with_tokens() {
                    let Some(tok) = el.as_token() else { continue };
                    if tok.kind() != syntax::syntax_kind::SyntaxKind::Id {
                        continue;
                    }
                    total += 1;
                    let off = u32::from(tok.text_range().start()) as usize;
                    if a.goto_definition(ws::pos(f, off)).is_some() {
                        resolved += 1;
                        continue;
                    }
                    let anc: Vec<String> = tok.parent_ancestors().take(4).map(|n| format!("{:?}", n.kind())).collect();
                    let e = by_ctx.entry(anc.join("<")).or_default();
                    e.0 += 1;
                    if e.1.len() < 3 {
                        e.1.push(format!("{}:{off} {}", path.rsplit('/').next().unwrap_or(""), tok.text()));
                    }
                }
            }
            println!("identifier tokens {total}, resolved {resolved}");
            let mut v: Vec<_> = by_ctx.into_iter().collect();
            v.sort_by_key(|x| std::cmp::Reverse(x.1 .0));
            for (k, (n, ex)) in v.into_iter().take(40) {
                println!("{n:7} {k}  e.g. {ex:?}");
            }
            0
        }
        "query" if args.len() >= 4 => {
            // developer tool: vcheck query <dir> <offset> : root.td in dir, prints definition/refs/hover/diags
            let dir = std::path::Path::new(&args[2]);
            let mut files = Vec::new();
            for e in std::fs::read_dir(dir).unwrap().flatten() {
                let n = e.file_name().to_string_lossy().to_string();
                if n.ends_with(".td") {
                    files.push((n, std::fs::read_to_string(e.path()).unwrap()));
                }
            }
            let w = ws::Workspace::new(&files, "root.td");
            let a = w.analysis();
            let off: usize = args[3].parse().unwrap_or(0);
            println!("definition: {:?}", a.goto_definition(ws::pos(w.root, off)));
            println!("references: {:?}", a.references(ws::pos(w.root, off)));
            println!("hover: {:?}", a.hover(ws::pos(w.root, off)));
            for (f, ds) in a.diagnostics() {
                for d in ds {
                    println!("diag {:?} {:?} {}", w.fs.path_of(f), d.location.range, d.message);
                }
            }
            0
        }
        "stdout-probe" => {
            // developer tool: is standard output really held while a C08 case runs?
            let held = vcheck::props::c08::StdoutHeld::new();
            let done = std::sync::Arc::new(std::sync::atomic::AtomicBool::new(false));
            let d2 = done.clone();
            std::thread::spawn(move || {
                println!("from another thread");
                d2.store(true, std::sync::atomic::Ordering::SeqCst);
            });
            std::thread::sleep(std::time::Duration::from_millis(500));
            let during = done.load(std::sync::atomic::Ordering::SeqCst);
            drop(held);
            std::thread::sleep(std::time::Duration::from_millis(500));
            eprintln!("printed while held: {during}; after release: {}", done.load(std::sync::atomic::Ordering::SeqCst));
            0
        }
        "lsp-probe" => {
            // developer tool: didOpen immediately followed by didChange and a request
            let n: usize = args.get(2).and_then(|s| s.parse().ok()).unwrap_or(2000);
            let tw = lspc::TempWs::new();
            let mut text = String::new();
            for i in 0..n {
                text.push_str(&format!("class C{i}<int a> {{ int x = a; }}\ndef d{i} : C{i}<{i}>;\n"));
            }
            tw.write("root.td", &text);
            let mut c = lspc::Client::start(2);
            println!("init {}", c.initialize());
            let uri = tw.uri("root.td");
            c.did_open(&uri, &text);
            std::thread::sleep(std::time::Duration::from_millis(args.get(3).and_then(|s| s.parse().ok()).unwrap_or(0)));
            c.did_change(&uri, 2, &format!("{text}\ndef extra;\n"));
            let r = c.request("textDocument/documentSymbol", serde_json::json!({"textDocument": {"uri": uri}}), std::time::Duration::from_secs(8));
            println!("response: {}", match &r { Ok(v) => format!("ok {} bytes", v.to_string().len()), Err(e) => format!("{e:?}") });
            c.drain(std::time::Duration::from_millis(300));
            println!("notifications: {}", c.notifications.len());
            c.shutdown();
            0
        }
        "sched-probe" => {
            let out = props::c08::run_schedule(args.get(2).map(|s| s.as_str()).unwrap_or("change-root"), &args[3.min(args.len())..].to_vec(), &[]);
            for st in &out.steps {
                println!("options {:?} chosen {} last {:?}", st.options, st.chosen, st.last);
            }
            println!("outcome: {}", match &out.outcome {
                props::c08::Outcome::Completed => "completed".to_string(),
                props::c08::Outcome::Deadlock(d) => format!("deadlock {d}"),
                props::c08::Outcome::Diverged(d) => format!("diverged {d}"),
                props::c08::Outcome::Inconclusive(d) => format!("inconclusive {d}"),
            });
            0
        }
        "run" if args.len() >= 4 => sup::parent_main(find(&args[2]), tier(&args[3])),
        "child" if args.len() >= 6 => sup::child_main(find(&args[2]), tier(&args[3]), Path::new(&args[4]), Path::new(&args[5])),
        "trace" if args.len() >= 7 => {
            sup::trace_main(find(&args[2]), tier(&args[3]), &args[4], args[5].parse().unwrap_or(0), Path::new(&args[6]))
        }
        "eval" if args.len() >= 5 => sup::eval_main(find(&args[2]), tier(&args[3]), Path::new(&args[4]), false),
        "eval-strict" if args.len() >= 5 => sup::eval_main(find(&args[2]), tier(&args[3]), Path::new(&args[4]), true),
        "replay" if args.len() >= 4 => sup::replay_main(find(&args[2]), Tier::Quick, Path::new(&args[3])),
        _ => usage(),
    };
    std::process::exit(code);
}
