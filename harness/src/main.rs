mod fw;
mod gen;
mod props;
mod refm;
mod ws;

use std::path::Path;

use fw::{sup, Property, Tier};

fn usage() -> ! {
    eprintln!("usage: vcheck run <ID> <quick|thorough> | replay <ID> <file> | list");
    std::process::exit(64);
}

fn main() {
    ws::init_env();
    let args: Vec<String> = std::env::args().collect();
    if args.len() < 2 {
        usage();
    }
    let registry = props::registry();
    let find = |id: &str| -> &dyn Property {
        match registry.iter().find(|p| p.id() == id) {
            Some(p) => p.as_ref(),
            None => {
                eprintln!("unknown property {id}");
                std::process::exit(64);
            }
        }
    };
    let tier = |s: &str| Tier::parse(s).unwrap_or_else(|| usage());
    let code = match args[1].as_str() {
        "list" => {
            for p in &registry {
                println!("{}", p.id());
            }
            0
        }
        "run" if args.len() >= 4 => sup::parent_main(find(&args[2]), tier(&args[3])),
        "child" if args.len() >= 6 => sup::child_main(find(&args[2]), tier(&args[3]), Path::new(&args[4]), Path::new(&args[5])),
        "trace" if args.len() >= 7 => {
            sup::trace_main(find(&args[2]), tier(&args[3]), &args[4], args[5].parse().unwrap_or(0), Path::new(&args[6]))
        }
        "eval" if args.len() >= 5 => sup::eval_main(find(&args[2]), tier(&args[3]), Path::new(&args[4]), false),
        "eval-strict" if args.len() >= 5 => sup::eval_main(find(&args[2]), tier(&args[3]), Path::new(&args[4]), true),
        "replay" if args.len() >= 4 => sup::replay_main(find(&args[2]), Tier::Quick, Path::new(&args[3])),
        _ => usage(),
    };
    std::process::exit(code);
}
