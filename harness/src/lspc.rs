//! In-process LSP client: runs the real `lsp::server::Server` (same layer stack as main.rs)
//! over an in-memory duplex pipe and speaks raw `Content-Length` framed JSON-RPC with it, so
//! that what the checks compare is the JSON an editor would see.
use std::collections::{BTreeMap, VecDeque};
use std::path::{Path, PathBuf};
use std::sync::atomic::{AtomicU64, Ordering};
use std::time::{Duration, Instant};

use async_lsp::concurrency::ConcurrencyLayer;
use async_lsp::server::LifecycleLayer;
use serde_json::{json, Value};
use tokio::io::{AsyncReadExt, AsyncWriteExt};
use tokio::sync::mpsc;
use tokio_util::compat::{TokioAsyncReadCompatExt, TokioAsyncWriteCompatExt};
use tower::ServiceBuilder;

pub struct Client {
    rt: tokio::runtime::Runtime,
    tx: std::sync::Arc<tokio::sync::Mutex<tokio::io::WriteHalf<tokio::io::DuplexStream>>>,
    rx: mpsc::UnboundedReceiver<Value>,
    /// server-to-client requests answered so far (the reader answers each at once with `null`, as an
    /// editor does for `workspace/*/refresh`, `client/registerCapability`, …)
    pub server_requests: std::sync::Arc<std::sync::atomic::AtomicUsize>,
    next_id: i64,
    /// notifications received so far, in order
    pub notifications: Vec<Value>,
    pending: VecDeque<Value>,
    server: Option<tokio::task::JoinHandle<()>>,
    pub sent_notifications: usize,
    /// arrival order of everything received (developer trace): "n:<method>:<file>:v<version>" / "r:<id>"
    pub arrivals: Vec<String>,
    /// thread name of every thread of this client's runtime (= the server's threads)
    pub thread_tag: String,
}

#[derive(Debug)]
pub enum RecvError {
    Timeout,
    Closed,
}

impl Client {
    pub fn start(worker_threads: usize) -> Client {
        let thread_tag = format!("srv{}", DIR_SEQ.fetch_add(1, Ordering::SeqCst));
        let rt = tokio::runtime::Builder::new_multi_thread()
            .thread_name(thread_tag.clone())
            .worker_threads(worker_threads.max(1))
            .max_blocking_threads(16)
            .enable_all()
            .build()
            .expect("tokio runtime");
        let (client_end, server_end) = tokio::io::duplex(1 << 22);
        let (srv_r, srv_w) = tokio::io::split(server_end);
        let (cli_r, cli_w) = tokio::io::split(client_end);
        let server = rt.spawn(async move {
            let (mainloop, _) = async_lsp::MainLoop::new_server(|client| {
                ServiceBuilder::new()
                    .layer(LifecycleLayer::default())
                    .layer(ConcurrencyLayer::default())
                    .service(lsp::server::Server::new_router(client))
            });
            let _ = mainloop.run_buffered(srv_r.compat(), srv_w.compat_write()).await;
        });
        let (tx_msg, rx) = mpsc::unbounded_channel::<Value>();
        let cli_w = std::sync::Arc::new(tokio::sync::Mutex::new(cli_w));
        let answer_w = cli_w.clone();
        let server_requests = std::sync::Arc::new(std::sync::atomic::AtomicUsize::new(0));
        let nreq = server_requests.clone();
        rt.spawn(async move {
            let mut r = cli_r;
            let mut buf: Vec<u8> = Vec::new();
            let mut chunk = vec![0u8; 1 << 16];
            loop {
                // parse as many frames as the buffer holds
                loop {
                    let Some(hdr_end) = find(&buf, b"\r\n\r\n") else { break };
                    let header = String::from_utf8_lossy(&buf[..hdr_end]).to_string();
                    let len = header
                        .lines()
                        .find_map(|l| l.strip_prefix("Content-Length:").map(|v| v.trim().parse::<usize>().unwrap_or(0)))
                        .unwrap_or(0);
                    if buf.len() < hdr_end + 4 + len {
                        break;
                    }
                    let body = buf[hdr_end + 4..hdr_end + 4 + len].to_vec();
                    buf.drain(..hdr_end + 4 + len);
                    if let Ok(v) = serde_json::from_slice::<Value>(&body) {
                        if v.get("method").is_some() && v.get("id").is_some() {
                            // a request of the server: answered straight away, behind whatever the
                            // client has already written
                            nreq.fetch_add(1, Ordering::SeqCst);
                            let body = json!({"jsonrpc": "2.0", "id": v["id"], "result": null}).to_string();
                            let frame = format!("Content-Length: {}\r\n\r\n{}", body.len(), body);
                            let mut w = answer_w.lock().await;
                            let _ = w.write_all(frame.as_bytes()).await;
                            let _ = w.flush().await;
                            continue;
                        }
                        if tx_msg.send(v).is_err() {
                            return;
                        }
                    }
                }
                match r.read(&mut chunk).await {
                    Ok(0) | Err(_) => return,
                    Ok(n) => buf.extend_from_slice(&chunk[..n]),
                }
            }
        });
        Client { rt, tx: cli_w, rx, server_requests, next_id: 1, notifications: Vec::new(), pending: VecDeque::new(), server: Some(server), sent_notifications: 0, arrivals: Vec::new(), thread_tag }
    }

    fn send_raw(&mut self, v: &Value) {
        let body = v.to_string();
        let frame = format!("Content-Length: {}\r\n\r\n{}", body.len(), body);
        let tx = self.tx.clone();
        self.rt.block_on(async {
            let mut tx = tx.lock().await;
            let _ = tx.write_all(frame.as_bytes()).await;
            let _ = tx.flush().await;
        });
    }

    pub fn notify(&mut self, method: &str, params: Value) {
        self.sent_notifications += 1;
        self.send_raw(&json!({"jsonrpc": "2.0", "method": method, "params": params}));
    }

    /// sends a request without waiting; returns its id
    pub fn send_request(&mut self, method: &str, params: Value) -> i64 {
        let id = self.next_id;
        self.next_id += 1;
        self.send_raw(&json!({"jsonrpc": "2.0", "id": id, "method": method, "params": params}));
        id
    }

    fn recv_one(&mut self, timeout: Duration) -> Result<Value, RecvError> {
        if let Some(v) = self.pending.pop_front() {
            return Ok(v);
        }
        let rx = &mut self.rx;
        self.rt.block_on(async {
            match tokio::time::timeout(timeout, rx.recv()).await {
                Ok(Some(v)) => Ok(v),
                Ok(None) => Err(RecvError::Closed),
                Err(_) => Err(RecvError::Timeout),
            }
        })
    }

    /// waits for the response to `id`; notifications arriving meanwhile are recorded
    pub fn wait_response(&mut self, id: i64, timeout: Duration) -> Result<Value, RecvError> {
        let deadline = Instant::now() + timeout;
        let mut stash: Vec<Value> = Vec::new();
        let r = loop {
            let left = deadline.saturating_duration_since(Instant::now());
            if left.is_zero() {
                break Err(RecvError::Timeout);
            }
            match self.recv_one(left) {
                Ok(v) => {
                    if self.arrivals.len() < 4096 {
                        self.arrivals.push(match v.get("method").and_then(|m| m.as_str()) {
                            Some(m) => format!("n:{m}:{}:v{}", v["params"]["uri"].as_str().unwrap_or("").rsplit('/').next().unwrap_or(""), v["params"]["version"]),
                            None => format!("r:{}", v["id"]),
                        });
                    }
                    if v.get("id").and_then(|x| x.as_i64()) == Some(id) && v.get("method").is_none() {
                        break Ok(v);
                    } else if v.get("method").is_some() && v.get("id").is_none() {
                        self.notifications.push(v);
                    } else {
                        stash.push(v);
                    }
                }
                Err(e) => break Err(e),
            }
        };
        for v in stash.into_iter().rev() {
            self.pending.push_front(v);
        }
        r
    }

    /// waits until a notification of `method` arrives that was not there before (responses arriving
    /// meanwhile are kept for `wait_response`)
    pub fn wait_for_notification(&mut self, method: &str, timeout: Duration) -> bool {
        let deadline = Instant::now() + timeout;
        let mut stash: Vec<Value> = Vec::new();
        let mut found = false;
        while !found {
            let left = deadline.saturating_duration_since(Instant::now());
            if left.is_zero() {
                break;
            }
            // only what comes off the wire: the pending queue holds responses put aside earlier
            let rx = &mut self.rx;
            let got = self.rt.block_on(async { tokio::time::timeout(left, rx.recv()).await });
            match got {
                Ok(Some(v)) => {
                    if v.get("method").is_some() && v.get("id").is_none() {
                        found = v["method"] == method;
                        self.notifications.push(v);
                    } else {
                        stash.push(v);
                    }
                }
                _ => break,
            }
        }
        for v in stash {
            self.pending.push_back(v);
        }
        found
    }

    pub fn request(&mut self, method: &str, params: Value, timeout: Duration) -> Result<Value, RecvError> {
        let id = self.send_request(method, params);
        self.wait_response(id, timeout)
    }

    /// moves everything that has arrived into `notifications` (responses are kept pending)
    pub fn drain(&mut self, settle: Duration) {
        loop {
            match self.recv_one(settle) {
                Ok(v) => {
                    if v.get("method").is_some() && v.get("id").is_none() {
                        self.notifications.push(v);
                    } else {
                        // keep responses for wait_response
                        let mut keep = vec![v];
                        while let Ok(x) = self.rx.try_recv() {
                            if x.get("method").is_some() && x.get("id").is_none() {
                                self.notifications.push(x);
                            } else {
                                keep.push(x);
                            }
                        }
                        for k in keep {
                            self.pending.push_back(k);
                        }
                        return;
                    }
                }
                Err(_) => return,
            }
        }
    }

    /// Everything the server emitted before this call has been received when it returns: the
    /// main loop writes outgoing messages in order, so the response to a fresh request comes last.
    pub fn barrier(&mut self, uri: &str) -> bool {
        self.request("textDocument/foldingRange", json!({"textDocument": {"uri": uri}}), Duration::from_secs(60)).is_ok()
    }

    pub fn initialize(&mut self) -> bool {
        self.initialize_as(true)
    }

    /// `editor`: announce the capabilities a current editor announces (dynamic registration, the
    /// `workspace/*/refresh` requests, work-done progress, …) instead of none
    pub fn initialize_as(&mut self, editor: bool) -> bool {
        let caps = if editor { editor_capabilities() } else { json!({}) };
        let r = self.request("initialize", json!({"processId": null, "rootUri": null, "capabilities": caps}), Duration::from_secs(20));
        self.notify("initialized", json!({}));
        self.sent_notifications -= 1; // not a document notification
        r.is_ok()
    }

    pub fn did_open(&mut self, uri: &str, text: &str) {
        self.notify("textDocument/didOpen", json!({"textDocument": {"uri": uri, "languageId": "tablegen", "version": 1, "text": text}}));
    }

    pub fn did_change(&mut self, uri: &str, version: i64, text: &str) {
        self.notify("textDocument/didChange", json!({"textDocument": {"uri": uri, "version": version}, "contentChanges": [{"text": text}]}));
    }

    /// last publishDiagnostics per uri: (version, diagnostics as sorted (range, message) JSON)
    pub fn last_diagnostics(&self) -> BTreeMap<String, (Option<i64>, Vec<Value>)> {
        let mut m = BTreeMap::new();
        for n in &self.notifications {
            if n["method"] == "textDocument/publishDiagnostics" {
                // (keyed by what the URI denotes: `%2B` and `+` are the same character of a path)
                let uri = percent_decode(n["params"]["uri"].as_str().unwrap_or(""));
                let mut ds: Vec<Value> = n["params"]["diagnostics"].as_array().cloned().unwrap_or_default().into_iter().map(|d| json!({"range": d["range"], "message": d["message"]})).collect();
                ds.sort_by_key(|d| d.to_string());
                m.insert(uri, (n["params"]["version"].as_i64(), ds));
            }
        }
        m
    }

    pub fn server_alive(&self) -> bool {
        self.server.as_ref().map(|s| !s.is_finished()).unwrap_or(false)
    }

    pub fn shutdown(mut self) {
        if let Some(s) = self.server.take() {
            s.abort();
        }
        // do not wait for blocking tasks that may be stuck
        self.rt.shutdown_background();
    }
}

/// what vscode-languageclient 9 announces, reduced to the features this server has
pub fn editor_capabilities() -> Value {
    json!({
        "workspace": {
            "applyEdit": true,
            "configuration": true,
            "workspaceFolders": true,
            "didChangeConfiguration": {"dynamicRegistration": true},
            "didChangeWatchedFiles": {"dynamicRegistration": true, "relativePatternSupport": true},
            "symbol": {"dynamicRegistration": true},
            "executeCommand": {"dynamicRegistration": true},
            "semanticTokens": {"refreshSupport": true},
            "codeLens": {"refreshSupport": true},
            "inlayHint": {"refreshSupport": true},
            "inlineValue": {"refreshSupport": true},
            "diagnostics": {"refreshSupport": true},
            "foldingRange": {"refreshSupport": true}
        },
        "textDocument": {
            "synchronization": {"dynamicRegistration": true, "willSave": true, "willSaveWaitUntil": true, "didSave": true},
            "publishDiagnostics": {"relatedInformation": true, "versionSupport": true, "tagSupport": {"valueSet": [1, 2]}, "codeDescriptionSupport": true, "dataSupport": true},
            "completion": {"dynamicRegistration": true, "contextSupport": true, "completionItem": {"snippetSupport": true, "documentationFormat": ["markdown", "plaintext"], "labelDetailsSupport": true}},
            "hover": {"dynamicRegistration": true, "contentFormat": ["markdown", "plaintext"]},
            "definition": {"dynamicRegistration": true, "linkSupport": true},
            "references": {"dynamicRegistration": true},
            "documentSymbol": {"dynamicRegistration": true, "hierarchicalDocumentSymbolSupport": true},
            "documentLink": {"dynamicRegistration": true, "tooltipSupport": true},
            "foldingRange": {"dynamicRegistration": true, "lineFoldingOnly": true},
            "inlayHint": {"dynamicRegistration": true, "resolveSupport": {"properties": ["tooltip", "label.location"]}}
        },
        "window": {"workDoneProgress": true, "showMessage": {}, "showDocument": {"support": true}},
        "general": {"positionEncodings": ["utf-16"], "staleRequestSupport": {"cancel": true, "retryOnContentModified": []}}
    })
}

fn find(hay: &[u8], needle: &[u8]) -> Option<usize> {
    hay.windows(needle.len()).position(|w| w == needle)
}

// ---------------------------------------------------------------------------------------
// scratch directories with real files (the server's Vfs reads the disk)

static DIR_SEQ: AtomicU64 = AtomicU64::new(0);

/// `%41` -> `A`; anything that is not a well-formed escape stays
pub fn percent_decode(s: &str) -> String {
    let b = s.as_bytes();
    let mut out: Vec<u8> = Vec::with_capacity(b.len());
    let mut i = 0;
    while i < b.len() {
        if b[i] == b'%' && i + 2 < b.len() {
            if let (Some(h), Some(l)) = ((b[i + 1] as char).to_digit(16), (b[i + 2] as char).to_digit(16)) {
                out.push((h * 16 + l) as u8);
                i += 3;
                continue;
            }
        }
        out.push(b[i]);
        i += 1;
    }
    String::from_utf8_lossy(&out).to_string()
}

pub struct TempWs {
    /// the client spells its URIs the way VS Code does: everything but unreserved characters and `/` escaped
    escape: bool,
    pub dir: PathBuf,
    /// the directory `dir` is a symbolic link to, when the workspace is reached through one
    real: Option<PathBuf>,
    /// files that live below INCLUDE_DIR instead (names, the subdirectory of INCLUDE_DIR, its path)
    library: Option<(Vec<String>, String, PathBuf)>,
}

impl TempWs {
    pub fn new() -> TempWs {
        let base = if Path::new("/dev/shm").is_dir() { PathBuf::from("/dev/shm") } else { crate::fw::sup::verif_dir().join("harness/target/run") };
        let dir = base.join(format!("vcheck-ws-{}-{}", std::process::id(), DIR_SEQ.fetch_add(1, Ordering::SeqCst)));
        let _ = std::fs::remove_dir_all(&dir);
        std::fs::create_dir_all(&dir).expect("scratch dir");
        TempWs { escape: false, dir, real: None, library: None }
    }
    /// a directory whose name has characters that editors and the `url` crate escape differently (`+`,
    /// `[`, `]`, a blank), and a client that escapes them all in the URIs it sends
    pub fn new_special() -> TempWs {
        let t = TempWs::new();
        let dir = PathBuf::from(format!("{}+[x] y", t.dir.display()));
        let _ = std::fs::remove_dir_all(&dir);
        std::fs::rename(&t.dir, &dir).expect("scratch dir");
        let mut t = t;
        t.dir = dir;
        t.escape = true;
        t
    }
    /// the same, but the path the client uses (`dir`) is a symbolic link to the directory that
    /// holds the files (a checkout under a symlinked home or build tree)
    pub fn new_symlinked() -> TempWs {
        let mut t = TempWs::new();
        let real = PathBuf::from(format!("{}.real", t.dir.display()));
        let _ = std::fs::remove_dir_all(&real);
        std::fs::rename(&t.dir, &real).expect("scratch dir");
        std::os::unix::fs::symlink(&real, &t.dir).expect("scratch link");
        t.real = Some(real);
        t
    }
    /// the files called `names` live in a directory of their own below INCLUDE_DIR (a library that
    /// comes with the tools): they are included as "<subdirectory>/<name>" and found through INCLUDE_DIR
    pub fn new_library(names: &[&str]) -> Option<TempWs> {
        let mut t = TempWs::new();
        let sub = t.dir.file_name()?.to_string_lossy().to_string();
        let lib = Path::new(crate::ws::INC_DIR).join(&sub);
        let _ = std::fs::remove_dir_all(&lib);
        std::fs::create_dir_all(&lib).ok()?;
        t.library = Some((names.iter().map(|n| n.to_string()).collect(), sub, lib));
        Some(t)
    }
    /// the subdirectory of INCLUDE_DIR that holds the library files
    pub fn library_subdir(&self) -> Option<&str> {
        self.library.as_ref().map(|l| l.1.as_str())
    }
    pub fn path(&self, name: &str) -> PathBuf {
        if let Some((names, _, lib)) = &self.library {
            if names.iter().any(|n| n == name) {
                return lib.join(name);
            }
        }
        self.dir.join(name)
    }
    pub fn write(&self, name: &str, text: &str) {
        let p = self.path(name);
        if let Some(parent) = p.parent() {
            let _ = std::fs::create_dir_all(parent);
        }
        std::fs::write(&p, text).expect("write scratch file");
        // every scratch file carries the same modification time, as after `cp -p`, `rsync -t`, a tar
        // extraction or two writes within one tick of a coarse clock: what is on disk is the truth,
        // whatever its time stamp says
        if let Ok(f) = std::fs::File::options().write(true).open(&p) {
            let _ = f.set_modified(std::time::UNIX_EPOCH + std::time::Duration::from_secs(1_600_000_000));
        }
    }
    pub fn uri(&self, name: &str) -> String {
        let raw = self.path(name).display().to_string();
        if !self.escape {
            return format!("file://{raw}");
        }
        let mut s = String::from("file://");
        for b in raw.bytes() {
            if b.is_ascii_alphanumeric() || matches!(b, b'-' | b'.' | b'_' | b'~' | b'/') {
                s.push(b as char);
            } else {
                s.push_str(&format!("%{b:02X}"));
            }
        }
        s
    }
    /// the URI as a key for comparisons: unescaped
    pub fn key(&self, name: &str) -> String {
        format!("file://{}", self.path(name).display())
    }
    pub fn abs(&self, name: &str) -> String {
        self.path(name).display().to_string()
    }
}

impl Drop for TempWs {
    fn drop(&mut self) {
        if let Some((_, _, lib)) = &self.library {
            let _ = std::fs::remove_dir_all(lib);
        }
        if let Some(real) = &self.real {
            let _ = std::fs::remove_file(&self.dir);
            let _ = std::fs::remove_dir_all(real);
        } else {
            let _ = std::fs::remove_dir_all(&self.dir);
        }
    }
}

// ---------------------------------------------------------------------------------------
// evidence that the server's threads are blocked (not merely slow)

#[derive(Clone, Debug, PartialEq)]
pub struct ThreadState {
    pub tid: u64,
    pub state: char,
    pub switches: u64,
    pub syscall: String,
    pub wchan: String,
}

pub fn thread_states(tag: &str) -> Vec<ThreadState> {
    let mut out = Vec::new();
    let Ok(rd) = std::fs::read_dir("/proc/self/task") else { return out };
    for e in rd.flatten() {
        let p = e.path();
        let comm = std::fs::read_to_string(p.join("comm")).unwrap_or_default();
        if comm.trim() != tag {
            continue;
        }
        let tid = e.file_name().to_string_lossy().parse().unwrap_or(0);
        let status = std::fs::read_to_string(p.join("status")).unwrap_or_default();
        let state = status.lines().find_map(|l| l.strip_prefix("State:")).and_then(|v| v.trim().chars().next()).unwrap_or('?');
        let sw: u64 = status
            .lines()
            .filter(|l| l.starts_with("voluntary_ctxt_switches") || l.starts_with("nonvoluntary_ctxt_switches"))
            .filter_map(|l| l.split(':').nth(1)?.trim().parse::<u64>().ok())
            .sum();
        let syscall = std::fs::read_to_string(p.join("syscall")).unwrap_or_default().split_whitespace().next().unwrap_or("?").to_string();
        let wchan = std::fs::read_to_string(p.join("wchan")).unwrap_or_default();
        out.push(ThreadState { tid, state, switches: sw, syscall, wchan });
    }
    out.sort_by_key(|t| t.tid);
    out
}

/// processor time (user + system, in seconds) that each of the server's threads has used so far
pub fn thread_cpu_seconds(tag: &str) -> std::collections::BTreeMap<u64, f64> {
    let mut out = std::collections::BTreeMap::new();
    let Ok(rd) = std::fs::read_dir("/proc/self/task") else { return out };
    let tick = unsafe { libc::sysconf(libc::_SC_CLK_TCK) }.max(1) as f64;
    for e in rd.flatten() {
        let p = e.path();
        if std::fs::read_to_string(p.join("comm")).unwrap_or_default().trim() != tag {
            continue;
        }
        let stat = std::fs::read_to_string(p.join("stat")).unwrap_or_default();
        // the fields behind the parenthesised command name: state is the first, utime and stime the 12th and 13th
        let Some(rest) = stat.rsplit_once(')').map(|x| x.1) else { continue };
        let f: Vec<&str> = rest.split_whitespace().collect();
        let (Some(u), Some(s)) = (f.get(11).and_then(|x| x.parse::<f64>().ok()), f.get(12).and_then(|x| x.parse::<f64>().ok())) else { continue };
        out.insert(e.file_name().to_string_lossy().parse().unwrap_or(0), (u + s) / tick);
    }
    out
}

/// Two samples of the server's threads show the same standstill: the same threads, all asleep in the same
/// place, and none of those that wait for a lock or a condition was scheduled in between. A thread that waits
/// for input (epoll: the main loop with nothing to read) may have been woken and gone back to waiting - the
/// runtime does that several times a second - as long as every sample finds it there.
pub fn same_standstill(a: &[ThreadState], b: &[ThreadState]) -> bool {
    a.len() == b.len()
        && a.iter().zip(b).all(|(x, y)| {
            x.tid == y.tid && x.state == y.state && x.wchan.trim() == y.wchan.trim() && (x.switches == y.switches || (x.wchan.contains("ep_poll") && y.wchan.contains("ep_poll")))
        })
}

/// true when, over `samples` samples `gap` apart, every server thread sleeps and none was
/// scheduled in between
pub fn all_blocked(tag: &str, samples: usize, gap: Duration) -> (bool, Vec<ThreadState>) {
    let first = thread_states(tag);
    if first.is_empty() || first.iter().any(|t| t.state != 'S') {
        return (false, first);
    }
    for _ in 1..samples {
        std::thread::sleep(gap);
        let now = thread_states(tag);
        if !same_standstill(&now, &first) {
            return (false, now);
        }
    }
    (true, first)
}
