#!/bin/sh
# offline build of the harness (links /repo's crates with the verif hooks enabled)
cd "$(dirname "$0")/harness" || exit 2
export CARGO_NET_OFFLINE=true
exec cargo build --release --offline
